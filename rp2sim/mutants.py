"""Sensitivity: a catalogue of realistic source mutants (each keeps the pinned test-suite green)
applied one at a time to a scratch copy of the tree under test; the owning check must report a
violation. Also the driver used to evaluate externally supplied patches (seeded changes).

python -m rp2sim mutants [--only id,id] [--tests]      catalogue
python -m rp2sim patch <patch.diff> --props C12,C17    external patch against a scratch copy
"""
import os
import shutil
import subprocess
import sys
import time

from . import runner

R = "src/rp2/"

# (id, owning property, file, old text, new text, note)
CATALOGUE = [
    ("m12-skip-bad-row", "C12", R + "ods_parser.py",
     "            _create_and_process_transaction(configuration, row_values, current_table_type, i + 1, unfiltered_transaction_sets, artificial_transaction_list)\n",
     "            try:\n                _create_and_process_transaction(configuration, row_values, current_table_type, i + 1, unfiltered_transaction_sets, artificial_transaction_list)\n"
     "            except RP2ValueError as exc:\n                LOGGER.warning(\"%s(%d): skipping invalid row: %s\", asset, i + 1, exc)\n",
     "bad rows are logged and skipped instead of rejected"),
    ("m12-assume-utc", "C12", R + "configuration.py",
     "        if result.tzinfo is None:\n            raise RP2ValueError(f\"Parameter '{name}' value has no timezone info: {value}\")\n",
     "        if result.tzinfo is None:\n            from datetime import timezone  # pylint: disable=import-outside-toplevel\n\n            result = result.replace(tzinfo=timezone.utc)\n",
     "timestamp without time zone silently taken as UTC"),
    ("m12-missing-table-end", "C12", R + "ods_parser.py",
     "    if current_table_type is not None:\n        raise RP2ValueError(f\"TABLE END not found for {current_table_type} table\")\n",
     "",
     "missing TABLE END of the last table tolerated"),
    ("m12-dup-column", "C12", R + "configuration.py",
     "                if column_value in column_to_header:\n                    raise RP2ValueError(\n                        f\"{configuration_path}: fields '{column_to_header[column_value]}' and \"\n"
     "                        f\"'{header}' have the same value in section '{section.name}': {column_value}\"\n                    )\n",
     "",
     "duplicate column numbers in a header section accepted"),
    ("m12-exit-zero", "C12", R + "rp2_main.py",
     "        LOGGER.exception(\"Fatal exception occurred:\")\n        sys.exit(1)\n",
     "        LOGGER.exception(\"Fatal exception occurred:\")\n        sys.exit(0)\n",
     "top-level handler exits with status 0"),
    ("m12-silent-exit", "C12", R + "rp2_main.py",
     "        LOGGER.exception(\"Fatal exception occurred:\")\n        sys.exit(1)\n",
     "        LOGGER.debug(\"Fatal exception occurred:\", exc_info=True)\n        sys.exit(1)\n",
     "fatal errors only reach the DEBUG log: the run exits 1 without telling the user anything"),
    ("m12-method-conflict-warning", "C12", R + "rp2_main.py",
     "                \"use only one of them.\"\n            )\n            sys.exit(1)\n        elif not args.method",
     "                \"use only one of them.\"\n            )\n            years_2_accounting_method_names = configuration.years_2_accounting_method_names\n        elif not args.method",
     "-m together with [accounting_methods] only logs an error and carries on"),
    ("m12-asset-mismatch", "C12", R + "abstract_entry_set.py",
     "        if entry.asset != self.asset:\n            raise RP2ValueError(f\"Attempting to add a {entry.asset} entry to a {self.asset} set\")\n",
     "",
     "row whose asset differs from its sheet accepted"),
    ("m12-nonnumeric-zero", "C12", R + "ods_parser.py",
     "            except (ValueError, RP2Error) as exc:\n                raise RP2ValueError(f\"Argument '{numeric_parameter}' has non-numeric value: {value}\") from exc\n",
     "            except (ValueError, RP2Error):\n                LOGGER.warning(\"Argument '%s' has non-numeric value %s: using 0\", numeric_parameter, value)\n                argument_pack[numeric_parameter] = ZERO\n",
     "non-numeric optional/mandatory numbers default to zero"),
    ("m12-report-per-asset", "C12", R + "rp2_main.py",
     "            asset_to_computed_data[asset] = computed_data\n\n        # Run report generators (both country-specific and non-country-specific)\n        _find_and_run_report_generators(\n            configuration=configuration,\n            package_paths=[REPORT_GENERATOR_PACKAGE, f\"{REPORT_GENERATOR_PACKAGE}.{country.country_iso_code}\"],\n            args=args,\n            country=country,\n            years_2_accounting_method_names=years_2_accounting_method_names,\n            asset_to_computed_data=asset_to_computed_data,\n            from_date=configuration.from_date,\n            to_date=configuration.to_date,\n        )\n",
     "            asset_to_computed_data[asset] = computed_data\n\n            # Run report generators (both country-specific and non-country-specific): refresh the reports after each asset\n            _find_and_run_report_generators(\n                configuration=configuration,\n                package_paths=[REPORT_GENERATOR_PACKAGE, f\"{REPORT_GENERATOR_PACKAGE}.{country.country_iso_code}\"],\n                args=args,\n                country=country,\n                years_2_accounting_method_names=years_2_accounting_method_names,\n                asset_to_computed_data=asset_to_computed_data,\n                from_date=configuration.from_date,\n                to_date=configuration.to_date,\n            )\n",
     "reports (re)written after every asset: asset 1 is reported before asset 2 fails"),
    # C16
    ("m16-revert-f2", "C16", R + "plugin/report/rp2_full_report.py",
     "        row: Optional[int] = self.__tax_sheet_year_2_row.get(_AssetAndYear(asset, year))\n        if not row:\n            # This may occur if command line time filters are activated: the year has no visible row in the gain / loss detail table\n            return value\n",
     "        row: int = self.__tax_sheet_year_2_row[_AssetAndYear(asset, year)]\n",
     "KeyError for summary years without visible detail rows reintroduced"),
    ("m16-us-lost", "C16", R + "plugin/report/us/tax_report_us.py",
     "        TransactionType.FEE,\n        TransactionType.LOST,\n        TransactionType.MOVE,\n",
     "        TransactionType.FEE,\n        TransactionType.MOVE,\n",
     "LOST removed from the US tax report type map"),
    ("m16-revert-f9", "C16", R + "plugin/report/open_positions.py",
     "        for asset in [asset for asset in asset_cost_bases if asset not in asset_crypto_balance_holder]:\n            total_cost_basis -= asset_cost_bases.pop(asset)\n",
     "",
     "open_positions KeyError for assets with unsold-looking lots and no positive balance reintroduced"),
    ("m16-template-suffix", "C16", R + "plugin/report/abstract_ods_generator.py",
     "        language_suffix = f\"_{generation_language}\" if country else \"\"\n",
     "        language_suffix = f\"_{generation_language.split('_')[0]}\" if country else \"\"\n",
     "language suffix normalised to the bare language: en_IE templates no longer found"),
    ("m16-midyear-window", "C16", R + "computed_data.py",
     "        return [y for y in unfiltered_yearly_gain_loss_list if y.year >= from_year]\n",
     "        return [y for y in unfiltered_yearly_gain_loss_list if y.year >= from_year] if from_year > MIN_DATE.year else unfiltered_yearly_gain_loss_list[: len(unfiltered_yearly_gain_loss_list) or None]\n",
     "(neutral refactoring - control: must NOT be reported)"),
    # C17
    ("m17-unsorted-assets", "C17", R + "rp2_main.py",
     "            assets = list(configuration.assets)\n        assets.sort()\n",
     "            assets = list(configuration.assets)\n",
     "assets processed in set (hash seed) order"),
    ("m17-unsorted-yearly", "C17", R + "computed_data.py",
     "        return list(sorted(yearly_gain_loss_set, key=_yearly_gain_loss_sort_criteria, reverse=True))\n",
     "        return list(yearly_gain_loss_set)\n",
     "yearly gain/loss list in set order"),
    ("m17-today-legend", "C17", R + "plugin/report/abstract_ods_generator.py",
     "                cls._fill_cell(legend_sheet, index + 2, 1, to_date if to_date != MAX_DATE else \"non-specified\", visual_style=\"transparent\")\n",
     "                cls._fill_cell(legend_sheet, index + 2, 1, to_date if to_date != MAX_DATE else f\"non-specified (as of {date.today()})\", visual_style=\"transparent\")\n",
     "legend carries today's date"),
    ("m17-default-to-today", "C17", R + "rp2_main.py",
     "        default=MAX_DATE,\n        help=\"Generate report up to the given date",
     "        default=date.today(),\n        help=\"Generate report up to the given date",
     "default to-date is today's date"),
    ("m17-row-before-time", "C17", R + "abstract_entry_set.py",
     "def _entry_sort_key(entry: AbstractEntry) -> datetime:\n    return entry.timestamp\n",
     "def _entry_sort_key(entry: AbstractEntry) -> tuple:  # type: ignore\n    return (entry.timestamp.date(), getattr(entry, \"row\", 0), entry.timestamp)\n",
     "entries of the same day ordered by input row before time"),
    ("m17-revert-f1", "C17", R + "plugin/report/rp2_full_report.py",
     "        self.__in_out_sheet_transaction_2_row = {}\n",
     "",
     "class-level transaction->row dictionary leaks across assets again"),
    ("m17-local-date-filter", "C17", R + "abstract_entry_set.py",
     "            if result.timestamp.date() >= self.__entry_set.from_date:\n",
     "            if result.timestamp.astimezone().date() >= self.__entry_set.from_date:\n",
     "from-date filter evaluated in the host's local time zone"),
    ("m17-reuse-existing-report", "C17", R + "plugin/report/abstract_ods_generator.py",
     "        if Path(output_file_path).exists():\n            output_file_path.unlink()\n\n        output_file: Any = ezodf.newdoc(\"ods\", str(output_file_path), template=template_path)\n",
     "        output_file: Any = ezodf.newdoc(\"ods\", str(output_file_path), template=template_path)\n        if Path(output_file_path).exists() and Path(output_file_path).stat().st_size > Path(template_path).stat().st_size:\n            # Keep the user's manual edits (column widths etc.): start from the existing report\n            try:\n                output_file = ezodf.newdoc(\"ods\", str(output_file_path), template=str(output_file_path))\n            except Exception:  # pylint: disable=broad-except\n                pass\n",
     "an existing report in the output directory is used as the template of the new one"),
    # C18
    ("m18-version-check", "C18", R + "rp2_main.py",
     "    parser = _setup_argument_parser(country)\n    args = parser.parse_args()\n",
     "    parser = _setup_argument_parser(country)\n    args = parser.parse_args()\n\n    try:\n        from urllib.request import urlopen  # pylint: disable=import-outside-toplevel\n\n        with urlopen(\"https://pypi.org/pypi/rp2/json\", timeout=2) as response:  # nosec\n            if _VERSION not in str(response.read()):\n                LOGGER.info(\"A newer version of RP2 may be available\")\n    except Exception:  # pylint: disable=broad-except\n        pass\n",
     "version check against PyPI at start-up"),
    ("m18-price-lookup-fallback", "C18", R + "intra_transaction.py",
     "                raise RP2ValueError(\n                    f\"crypto_fee is non-zero ({self.__crypto_fee}) but spot_price is empty or zero: {timestamp} {asset} {crypto_sent} {unique_id} \"\n                )\n",
     "                try:\n                    import socket  # pylint: disable=import-outside-toplevel\n\n                    socket.getaddrinfo(\"api.coingecko.com\", 443)\n                except OSError:\n                    pass\n                raise RP2ValueError(\n                    f\"crypto_fee is non-zero ({self.__crypto_fee}) but spot_price is empty or zero: {timestamp} {asset} {crypto_sent} {unique_id} \"\n                )\n",
     "host name lookup on the missing-spot-price error path (lazy import)"),
    ("m18-libreoffice", "C18", R + "plugin/report/open_positions.py",
     "        output_file.save()\n        LOGGER.info(\"Plugin '%s' output: %s\", __name__, Path(output_file.docname).resolve())\n",
     "        output_file.save()\n        LOGGER.info(\"Plugin '%s' output: %s\", __name__, Path(output_file.docname).resolve())\n        import shutil  # pylint: disable=import-outside-toplevel\n        import subprocess  # pylint: disable=import-outside-toplevel  # nosec\n\n        if shutil.which(\"soffice\") or len(asset_cost_bases) > 2:\n            try:\n                subprocess.run([\"soffice\", \"--headless\", \"--convert-to\", \"pdf\", str(output_file.docname)], check=False, timeout=60)  # nosec\n            except OSError:\n                pass\n",
     "spawns soffice to convert the report when available (or for portfolios of 3+ assets)"),
    ("m18-home-cache", "C18", R + "configuration.py",
     "        # Used by __repr__()\n",
     "        try:\n            cache_dir = Path.home() / \".rp2\"\n            cache_dir.mkdir(exist_ok=True)\n            (cache_dir / \"last_configuration\").write_text(str(Path(configuration_path).resolve()), encoding=\"utf-8\")\n        except OSError:\n            pass\n\n        # Used by __repr__()\n",
     "remembers the last configuration path in ~/.rp2"),
    ("m18-tmp-crash-report", "C18", R + "rp2_main.py",
     "        LOGGER.exception(\"Fatal exception occurred:\")\n        sys.exit(1)\n",
     "        LOGGER.exception(\"Fatal exception occurred:\")\n        import tempfile  # pylint: disable=import-outside-toplevel\n        import traceback  # pylint: disable=import-outside-toplevel\n\n        with tempfile.NamedTemporaryFile(\"w\", prefix=\"rp2_crash_\", suffix=\".txt\", delete=False) as crash_file:\n            traceback.print_exc(file=crash_file)\n        sys.exit(1)\n",
     "crash report written to the temp directory from the top-level handler"),
    ("m18-touch-input", "C18", R + "ods_parser.py",
     "    return ezodf.opendoc(input_file_path)\n",
     "    result: Any = ezodf.opendoc(input_file_path)\n    if len(result.sheets) > 3:\n        import os  # pylint: disable=import-outside-toplevel\n\n        os.utime(input_file_path)\n    return result\n",
     "input spreadsheet's mtime refreshed for spreadsheets with more than three sheets"),
    # the next three reach the kernel through ctypes/libc: no CPython audit event exists for them, only the system-call monitor sees them
    ("m18-libc-stamp-file", "C18", R + "rp2_main.py",
     "        LOGGER.exception(\"Fatal exception occurred:\")\n        sys.exit(1)\n",
     "        LOGGER.exception(\"Fatal exception occurred:\")\n        import ctypes  # pylint: disable=import-outside-toplevel\n\n        libc = ctypes.CDLL(None)\n        fd = libc.open(b\"/var/tmp/.rp2sim_mutant_stamp\", 0o101, 0o644)\n        if fd >= 0:\n            libc.write(fd, b\"x\", 1)\n            libc.close(fd)\n        sys.exit(1)\n",
     "stamp file written outside the simulated world through libc (ctypes) from the top-level handler"),
    ("m18-libc-system", "C18", R + "plugin/report/open_positions.py",
     "        output_file.save()\n        LOGGER.info(\"Plugin '%s' output: %s\", __name__, Path(output_file.docname).resolve())\n",
     "        output_file.save()\n        LOGGER.info(\"Plugin '%s' output: %s\", __name__, Path(output_file.docname).resolve())\n        import ctypes  # pylint: disable=import-outside-toplevel\n\n        ctypes.CDLL(None).system(b\"true\")\n",
     "shell command run through libc system() after the open-positions report is saved"),
    ("m18-libc-getaddrinfo", "C18", R + "rp2_main.py",
     "        LOGGER.exception(\"Fatal exception occurred:\")\n        sys.exit(1)\n",
     "        LOGGER.exception(\"Fatal exception occurred:\")\n        import ctypes  # pylint: disable=import-outside-toplevel\n\n        res = ctypes.c_void_p()\n        ctypes.CDLL(None).getaddrinfo(b\"telemetry.example.com\", b\"443\", None, ctypes.byref(res))\n        sys.exit(1)\n",
     "host name resolved through libc getaddrinfo() from the top-level handler"),
]
CONTROL = {"m16-midyear-window"}


def make_copy(tag):
    base = os.path.join(runner.scratch_base(), "mut-%s" % tag)
    shutil.rmtree(base, ignore_errors=True)
    os.makedirs(base)
    repo = os.path.dirname(runner.DEFAULT_SRC.rstrip("/"))
    shutil.copytree(os.path.join(repo, "src"), os.path.join(base, "src"), ignore=shutil.ignore_patterns("__pycache__", "*.egg-info"))
    return base


def apply_text(base, rel, old, new):
    path = os.path.join(base, rel)
    with open(path, encoding="utf-8") as fh:
        s = fh.read()
    if s.count(old) != 1:
        raise runner.HarnessError("mutant anchor not found exactly once in %s (%d)" % (rel, s.count(old)))
    with open(path, "w", encoding="utf-8") as fh:
        fh.write(s.replace(old, new))


def run_tests(base):
    """The pinned baseline suite against the mutated copy (48 stable tests must still pass)."""
    repo = os.path.dirname(runner.DEFAULT_SRC.rstrip("/"))
    env = dict(os.environ, PYTHONPATH=os.path.join(base, "src"), PYTHONDONTWRITEBYTECODE="1")
    p = subprocess.run([runner.PYTHON, "-m", "pytest", "-q", "-p", "no:cacheprovider", "--timeout=900", "--continue-on-collection-errors"],
                       cwd=repo, env=env, capture_output=True, text=True, check=False)
    tail = p.stdout.strip().splitlines()[-1] if p.stdout.strip() else p.stderr[-200:]
    return ("48 passed" in tail), tail


def run_check(prop, src, cases=None, tier="quick"):
    env = dict(os.environ, RP2SIM_NO_MINIMIZE="1", PYTHONHASHSEED="0", RP2SIM_REPLAY_DIR=os.path.join(runner.scratch_base(), "replays-of-mutated-trees"))
    env.pop("RP2SIM_SESSION", None)
    cmd = [sys.executable, "-m", "rp2sim", "check", prop, "--tier", tier, "--src", src, "--no-evidence"]
    if cases:
        cmd += ["--cases", str(cases)]
    p = subprocess.run(cmd, cwd=runner.VERIF, env=env, capture_output=True, text=True, check=False)
    sigs = [ln.strip() for ln in p.stdout.splitlines() if ln.strip().startswith("signature=")]
    return p.returncode, sigs, p.stdout[-1500:]


def catalogue(only=None, tests=False, log=print):
    results = []
    for mid, prop, rel, old, new, note in CATALOGUE:
        if only and mid not in only:
            continue
        t0 = time.monotonic()
        base = make_copy(mid)
        try:
            apply_text(base, rel, old, new)
            tests_ok, tail = run_tests(base) if tests else (None, "not run")
            rc, sigs, out = run_check(prop, os.path.join(base, "src"))
            caught = rc == 1
            expected = mid not in CONTROL
            ok = (caught == expected) and rc in (0, 1)
            results.append({"mutant": mid, "property": prop, "note": note, "tests_48_pass": tests_ok, "check_exit": rc, "caught": caught, "as_expected": ok,
                            "signatures": [s[:200] for s in sigs[:3]], "wall_s": round(time.monotonic() - t0, 1)})
            log("%-28s %s tests=%s exit=%d %s %s" % (mid, prop, tests_ok, rc, "CAUGHT" if caught else "missed", (sigs[0][:150] if sigs else "")))
            if rc not in (0, 1):
                log(out)
        finally:
            shutil.rmtree(base, ignore_errors=True)
    return results


def external_patch(patch, props, cases=None, tier="quick", log=print):
    base = make_copy("ext")
    try:
        # the scratch copy holds src/ only: hunks for docs or tests are left out
        p = subprocess.run(["git", "apply", "--include=src/*", "--whitespace=nowarn", os.path.abspath(patch)], cwd=base, capture_output=True, text=True, check=False)
        if p.returncode != 0:
            p = subprocess.run(["patch", "-p1", "-s", "-f", "-i", os.path.abspath(patch)], cwd=base, capture_output=True, text=True, check=False)
            if p.returncode != 0 and not os.path.exists(os.path.join(base, "src")):
                pass
        if p.returncode != 0:
            raise runner.HarnessError("patch does not apply: %s %s" % (p.stdout, p.stderr))
        out = {}
        for prop in props:
            rc, sigs, tail = run_check(prop, os.path.join(base, "src"), cases=cases, tier=tier)
            out[prop] = {"exit": rc, "signatures": sigs}
            log("%s exit=%d %s" % (prop, rc, sigs[:3]))
            if rc not in (0, 1):
                log(tail)
        return out
    finally:
        shutil.rmtree(base, ignore_errors=True)


def seeded(only=None, tier="quick", log=print):
    """Run the owning check against every kept seeded change (seeded/<id>/patch.diff applied to a scratch copy of the tree under
    test) and record the outcome in seeded/RESULTS.json. Exit 0 when every one of them is reported as a violation."""
    import json  # pylint: disable=import-outside-toplevel

    root = os.path.join(runner.VERIF, "seeded")
    path = os.path.join(root, "RESULTS.json")
    merged = {}
    if os.path.exists(path):
        with open(path, encoding="utf-8") as fh:
            merged = {r["id"]: r for r in json.load(fh)}
    missed = 0
    for sid in sorted(os.listdir(root)):
        d = os.path.join(root, sid)
        if not os.path.isdir(d) or (only and sid not in only):
            continue
        with open(os.path.join(d, "meta.json"), encoding="utf-8") as fh:
            prop = json.load(fh)["property"]
        t0 = time.monotonic()
        out = external_patch(os.path.join(d, "patch.diff"), [prop], tier=tier, log=lambda *_: None)[prop]
        caught = out["exit"] == 1
        missed += 0 if caught else 1
        merged[sid] = {"id": sid, "property": prop, "tier": tier, "check_exit": out["exit"], "caught": caught,
                       "signatures": [s[:260] for s in out["signatures"][:4]], "wall_s": round(time.monotonic() - t0, 1)}
        log("%-6s %s exit=%d %s %s" % (sid, prop, out["exit"], "CAUGHT" if caught else "missed", (out["signatures"][0][:160] if out["signatures"] else "")))
    with open(path, "w", encoding="utf-8") as fh:
        json.dump([merged[k] for k in sorted(merged)], fh, indent=1)
    return 0 if not missed else 3
