"""Proving the simulator itself: determinism (same seed => identical recorded results, across
worker counts, harness hash seeds and fresh interpreters) and a short sanity pass.

determinism: N case seeds per property, executed in two separate harness processes - 16 workers
with PYTHONHASHSEED=0, then 3 workers with another PYTHONHASHSEED - and the per-run digests
(see runner.digest: exit status, stdout/stderr, event log, clock statistics, dumps, whole-file
hashes of everything in the simulated world) must be pairwise identical."""
import json
import os
import subprocess
import sys
import time

from . import engine, gen, runner

PROPS = ["C12", "C16", "C17", "C18"]


def _pass(props, n, master, workers, hashseed, base):
    env = dict(os.environ, PYTHONHASHSEED=str(hashseed), RP2SIM_KEEP_HASHSEED="1", RP2SIM_WORKERS=str(workers))
    code = ("import json,sys\n"
            "from rp2sim import engine\n"
            "res={}\n"
            "for p in %r:\n"
            "    outs=engine.run_batch(p, list(range(%d,%d)), %d)\n"
            "    res[p]=[[o['index'], o.get('digests'), o.get('harness_error'), sorted(s for s,_ in o.get('signatures', [(o.get('signature'),0)]))] for o in outs]\n"
            "json.dump(res, sys.stdout)\n") % (props, base, base + n, master)
    p = subprocess.run([sys.executable, "-c", code], cwd=runner.VERIF, env=env, capture_output=True, text=True, check=False)
    if p.returncode != 0:
        raise runner.HarnessError("selftest pass failed: %s" % p.stderr[-3000:])
    return json.loads(p.stdout)


def determinism(n, master, props=None, log=print):
    props = props or PROPS
    t0 = time.monotonic()
    base = 5_000_000
    a = _pass(props, n, master, 16, 0, base)
    b = _pass(props, n, master, 3, 12345, base)
    bad = 0
    runs = 0
    for p in props:
        for ra, rb in zip(a[p], b[p]):
            runs += len(ra[1] or [])
            if ra != rb:
                bad += 1
                if bad <= 5:
                    log("NONDETERMINISTIC %s case index %s: %s vs %s" % (p, ra[0], ra[1:], rb[1:]))
            if ra[2] or rb[2]:
                log("harness error in selftest case %s %s: %s" % (p, ra[0], (ra[2] or rb[2])[:500]))
                bad += 1
    log("determinism: %d properties x %d case seeds, %d simulated runs per pass, 2 passes (16 workers/PYTHONHASHSEED=0 vs 3 workers/PYTHONHASHSEED=12345): %d mismatching cases, %.0fs"
        % (len(props), n, runs, bad, time.monotonic() - t0))
    return bad


def main(mode, master, n=None):
    runner.ensure_shim()
    if not runner.setarch_cmd():
        print("note: setarch -R unavailable; ASLR cannot be switched off, address-dependent orders may differ between runs")
    if mode == "short":
        bad = determinism(n or 4, master)
    elif mode in ("determinism", "full"):
        bad = determinism(n or 200, master)
    else:
        bad = 0

    print("selftest %s: %s" % (mode, "OK" if not bad else "FAILED"))
    return 0 if not bad else 2
