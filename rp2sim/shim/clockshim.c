/*
 * rp2sim clock shim (LD_PRELOAD).
 *
 * Every wall/monotonic clock read of the simulated process returns simulated
 * time:   now = RP2SIM_EPOCH_NS + reads * RP2SIM_TICK_NS + sum(jumps fired)
 * RP2SIM_JUMPS = "k1:delta_ns1,k2:delta_ns2,..." adds delta_i once the read
 * counter reaches k_i (deltas may be negative: the clock steps backwards).
 * Sleeps return at once and advance the simulated clock by the requested time.
 * With RP2SIM_EPOCH_NS unset the shim is transparent.
 *
 * RP2SIM_CLOCK_STATS=<fd>: at exit, "reads=<n> jumps=<m> sleeps=<s>\n" is
 * written to that fd (used by the harness to count what actually fired).
 */
#define _GNU_SOURCE
#include <dlfcn.h>
#include <stdint.h>
#include <stdio.h>
#include <stdlib.h>
#include <string.h>
#include <sys/time.h>
#include <time.h>
#include <unistd.h>

#define MAXJ 16
static int active = -1;
static int64_t epoch_ns, tick_ns, offset_ns;
static uint64_t reads, sleeps, jumps_fired;
static int njumps;
static uint64_t jump_at[MAXJ];
static int64_t jump_delta[MAXJ];
static int jump_done[MAXJ];
static int stats_fd = -1;

static void at_exit_stats(void) {
    if (stats_fd >= 0) {
        char buf[128];
        int n = snprintf(buf, sizeof buf, "reads=%llu jumps=%llu sleeps=%llu\n",
                         (unsigned long long)reads, (unsigned long long)jumps_fired,
                         (unsigned long long)sleeps);
        if (n > 0) { ssize_t r = write(stats_fd, buf, (size_t)n); (void)r; }
    }
}

static void init(void) {
    const char *e = getenv("RP2SIM_EPOCH_NS");
    if (!e || !*e) { active = 0; return; }
    epoch_ns = strtoll(e, NULL, 10);
    const char *t = getenv("RP2SIM_TICK_NS");
    tick_ns = t && *t ? strtoll(t, NULL, 10) : 1000000;
    const char *j = getenv("RP2SIM_JUMPS");
    njumps = 0;
    if (j && *j) {
        char *dup = strdup(j), *save = NULL;
        for (char *tok = strtok_r(dup, ",", &save); tok && njumps < MAXJ; tok = strtok_r(NULL, ",", &save)) {
            char *colon = strchr(tok, ':');
            if (!colon) continue;
            *colon = 0;
            jump_at[njumps] = strtoull(tok, NULL, 10);
            jump_delta[njumps] = strtoll(colon + 1, NULL, 10);
            jump_done[njumps] = 0;
            njumps++;
        }
        free(dup);
    }
    const char *s = getenv("RP2SIM_CLOCK_STATS");
    if (s && *s) { stats_fd = atoi(s); atexit(at_exit_stats); }
    active = 1;
}

static int64_t sim_now(void) {
    reads++;
    for (int i = 0; i < njumps; i++)
        if (!jump_done[i] && reads >= jump_at[i]) { jump_done[i] = 1; offset_ns += jump_delta[i]; jumps_fired++; }
    return epoch_ns + (int64_t)reads * tick_ns + offset_ns;
}

int clock_gettime(clockid_t clk, struct timespec *ts) {
    if (active < 0) init();
    if (!active) {
        static int (*real)(clockid_t, struct timespec *);
        if (!real) real = dlsym(RTLD_NEXT, "clock_gettime");
        return real(clk, ts);
    }
    if ((unsigned)clk == 0x52503253u) { /* harness query: statistics, not a clock read */
        if (ts) { ts->tv_sec = (time_t)reads; ts->tv_nsec = (long)((jumps_fired % 1000000) * 1000 + (sleeps % 1000)); }
        return 0;
    }
    int64_t n = sim_now();
    if (clk == CLOCK_PROCESS_CPUTIME_ID || clk == CLOCK_THREAD_CPUTIME_ID)
        n = (int64_t)reads * tick_ns; /* cpu clocks: monotone, never jump */
    else if (clk == CLOCK_MONOTONIC || clk == CLOCK_MONOTONIC_RAW || clk == CLOCK_MONOTONIC_COARSE || clk == CLOCK_BOOTTIME)
        n = 1000000000LL + (int64_t)reads * tick_ns; /* monotone by contract */
    if (ts) { ts->tv_sec = n / 1000000000LL; ts->tv_nsec = n % 1000000000LL; if (ts->tv_nsec < 0) { ts->tv_nsec += 1000000000LL; ts->tv_sec -= 1; } }
    return 0;
}

int gettimeofday(struct timeval *tv, void *tz) {
    if (active < 0) init();
    if (!active) {
        static int (*real)(struct timeval *, void *);
        if (!real) real = dlsym(RTLD_NEXT, "gettimeofday");
        return real(tv, tz);
    }
    int64_t n = sim_now();
    if (tv) { tv->tv_sec = n / 1000000000LL; tv->tv_usec = (n % 1000000000LL) / 1000; if (tv->tv_usec < 0) { tv->tv_usec += 1000000; tv->tv_sec -= 1; } }
    return 0;
}

time_t time(time_t *out) {
    if (active < 0) init();
    if (!active) {
        static time_t (*real)(time_t *);
        if (!real) real = dlsym(RTLD_NEXT, "time");
        return real(out);
    }
    int64_t n = sim_now();
    time_t r = (time_t)(n / 1000000000LL);
    if (n % 1000000000LL < 0) r -= 1;
    if (out) *out = r;
    return r;
}

int nanosleep(const struct timespec *req, struct timespec *rem) {
    if (active < 0) init();
    if (!active) {
        static int (*real)(const struct timespec *, struct timespec *);
        if (!real) real = dlsym(RTLD_NEXT, "nanosleep");
        return real(req, rem);
    }
    sleeps++;
    if (req) offset_ns += (int64_t)req->tv_sec * 1000000000LL + req->tv_nsec;
    if (rem) { rem->tv_sec = 0; rem->tv_nsec = 0; }
    return 0;
}

int clock_nanosleep(clockid_t clk, int flags, const struct timespec *req, struct timespec *rem) {
    if (active < 0) init();
    if (!active) {
        static int (*real)(clockid_t, int, const struct timespec *, struct timespec *);
        if (!real) real = dlsym(RTLD_NEXT, "clock_nanosleep");
        return real(clk, flags, req, rem);
    }
    (void)clk;
    sleeps++;
    if (req && !(flags & TIMER_ABSTIME)) offset_ns += (int64_t)req->tv_sec * 1000000000LL + req->tv_nsec;
    if (rem) { rem->tv_sec = 0; rem->tv_nsec = 0; }
    return 0;
}
