from rp2sim.cli import main

main()
