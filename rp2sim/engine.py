"""Batch driver: seeded case generation, parallel execution, aggregation in index order,
violation handling (known findings, minimisation, replay files) and evidence files."""
import concurrent.futures as cf
import faulthandler
import importlib
import json
import multiprocessing
import os
import subprocess
import sys
import time
import traceback

from . import gen, minimize, runner, tree
from . import world as W

VERIF = runner.VERIF
KNOWN_FILE = os.path.join(VERIF, "KNOWN_FINDINGS.txt")
EVIDENCE_DIR = os.path.join(VERIF, "evidence")
REGRESSION_DIR = os.path.join(VERIF, "replays")  # committed replay files: fixed/ and known/
REPLAY_DIR = os.environ.get("RP2SIM_REPLAY_DIR") or REGRESSION_DIR  # where new violation replays are written
THOROUGH_BASE = 1_000_000

MODS = {"C12": "rp2sim.props.c12", "C16": "rp2sim.props.c16", "C17": "rp2sim.props.c17", "C18": "rp2sim.props.c18"}


def mod_for(prop):
    return importlib.import_module(MODS[prop])


def load_known():
    """KNOWN_FINDINGS.txt: 'known: property=<id> sig=<signature> <text>' suppresses exactly that
    signature; 'fixed: ...' lines are history and suppress nothing."""
    known = {}
    if os.path.exists(KNOWN_FILE):
        with open(KNOWN_FILE, encoding="utf-8") as fh:
            for line in fh:
                line = line.strip()
                if not line.startswith("known:"):
                    continue
                parts = line.split()
                prop = next((p[9:] for p in parts if p.startswith("property=")), None)
                sig = next((p[4:] for p in parts if p.startswith("sig=")), None)
                if prop and sig:
                    known[sig] = line[len("known:"):].strip()
    return known


def _clock_stats(out):
    st = out.setdefault("stats", {})
    st["clock_reads"] = sum(c[0] for c in runner.RUN_CLOCKS)
    st["clock_jumps_fired"] = sum(c[1] for c in runner.RUN_CLOCKS)
    st["sim_span_s"] = sum(c[2] for c in runner.RUN_CLOCKS)


def _worker(args):
    prop, seed, index, src = args
    faulthandler.dump_traceback_later(600, exit=False)
    try:
        mod = mod_for(prop)
        facts = tree.all_facts(src or runner.DEFAULT_SRC)
        case = mod.make_case(seed, facts, index)
        del runner.RUN_DIGESTS[:]
        del runner.RUN_CLOCKS[:]
        out = mod.exec_case(case, facts, src=src)
        out["digests"] = list(runner.RUN_DIGESTS)
        _clock_stats(out)
        out["index"], out["seed"] = index, seed
        if out["violations"]:
            out["case"] = case
        return out
    except Exception as exc:  # pylint: disable=broad-except
        return {"index": index, "seed": seed, "harness_error": "%s: %s\n%s" % (type(exc).__name__, exc, traceback.format_exc())}
    finally:
        faulthandler.cancel_dump_traceback_later()


def _worker_case(args):
    prop, case, src = args
    faulthandler.dump_traceback_later(600, exit=False)
    try:
        mod = mod_for(prop)
        facts = tree.all_facts(src or runner.DEFAULT_SRC)
        del runner.RUN_DIGESTS[:]
        del runner.RUN_CLOCKS[:]
        out = mod.exec_case(case, facts, src=src)
        out["digests"] = list(runner.RUN_DIGESTS)
        _clock_stats(out)
        out["index"], out["seed"] = case.get("index", -1), case.get("seed", 0)
        if out["violations"]:
            out["case"] = case
        return out
    except Exception as exc:  # pylint: disable=broad-except
        return {"index": case.get("index", -1), "seed": case.get("seed", 0), "harness_error": "%s: %s\n%s" % (type(exc).__name__, exc, traceback.format_exc())}
    finally:
        faulthandler.cancel_dump_traceback_later()


def _run_tasks(fn, tasks, key, workers=None, wall_cap=None):
    """Run tasks on a fork pool; results keyed by key(task). A dead worker turns into a harness error, never a hang."""
    workers = workers or int(os.environ.get("RP2SIM_WORKERS", "0")) or min(16, os.cpu_count() or 4)
    results = {}
    t0 = time.monotonic()
    ctx = multiprocessing.get_context("fork")
    with cf.ProcessPoolExecutor(max_workers=workers, mp_context=ctx) as pool:
        futs = {pool.submit(fn, t): t for t in tasks}
        pending = set(futs)
        while pending:
            done, pending = cf.wait(pending, timeout=30, return_when=cf.FIRST_COMPLETED)
            for f in done:
                t = futs[f]
                try:
                    results[key(t)] = f.result()
                except Exception as exc:  # pylint: disable=broad-except
                    results[key(t)] = {"index": key(t), "seed": 0, "harness_error": "worker died: %s" % exc}
            if wall_cap and time.monotonic() - t0 > wall_cap:
                for f in pending:
                    f.cancel()
                raise runner.HarnessError("wall cap of %ss hit with %d/%d cases done" % (wall_cap, len(results), len(tasks)))
    return results


def run_cases(prop, cases, src=None, workers=None):
    """Execute explicit case descriptions (used by enumeration phases and self-tests)."""
    tasks = [(prop, dict(c, _k=i), src) for i, c in enumerate(cases)]
    results = _run_tasks(_worker_case, tasks, key=lambda t: t[1]["_k"], workers=workers)
    return [results[i] for i in range(len(cases))]


def run_batch(prop, indices, master, workers=None, src=None, wall_cap=None, progress=None):
    del progress
    tasks = [(prop, gen.case_seed(master, prop, i), i, src) for i in indices]
    results = _run_tasks(_worker, tasks, key=lambda t: t[2], workers=workers, wall_cap=wall_cap)
    return [results[i] for i in indices]


def aggregate(outs):
    stats = {}
    sigs = set()
    nontrivial_sigs = set()
    violations = []
    harness_errors = []
    for o in outs:
        if "harness_error" in o:
            harness_errors.append(o)
            continue
        for k, v in o["stats"].items():
            stats[k] = stats.get(k, 0) + v
        for s, nt in o.get("signatures", [(o.get("signature"), o.get("nontrivial"))]):
            sigs.add(s)
            if nt:
                nontrivial_sigs.add(s)
        for v in o["violations"]:
            violations.append((o["index"], o["seed"], v, o.get("case")))
    return stats, sigs, nontrivial_sigs, violations, harness_errors


def write_replay(prop, case, sig, violation, note=None):
    os.makedirs(REPLAY_DIR, exist_ok=True)
    import hashlib  # pylint: disable=import-outside-toplevel

    path = os.path.join(REPLAY_DIR, "%s-%d-%s.json" % (prop, case["seed"], hashlib.sha1(sig.encode()).hexdigest()[:8]))
    doc = {"property": prop, "signature": sig, "violation": W.to_jsonable(violation), "case": W.to_jsonable(case), "note": note,
           "how": "/venv/bin/python -m rp2sim replay %s" % path}
    with open(path, "w", encoding="utf-8") as fh:
        json.dump(doc, fh, indent=1, ensure_ascii=False)
    return path


def replay(path, src=None, quiet=False):
    """Re-execute a replay file. Returns (reproduced, outcome)."""
    with open(path, encoding="utf-8") as fh:
        doc = json.load(fh)
    prop = doc["property"]
    mod = mod_for(prop)
    case = W.from_jsonable(doc["case"])
    facts = tree.all_facts(src or runner.DEFAULT_SRC)
    out = mod.exec_case(case, facts, src=src)
    got = [minimize.vsig(prop, v) for v in out["violations"]]
    ok = doc["signature"] in got
    if not quiet:
        print("replay %s: expected %s, got %s -> %s" % (path, doc["signature"], got or "no violation", "REPRODUCED" if ok else "NOT REPRODUCED"))
        for v in out["violations"]:
            print("  ", json.dumps(W.to_jsonable(v), ensure_ascii=False)[:600])
    return ok, out


def check(prop, tier, master, cases=None, src=None, log=print, write_evidence=True):
    t0 = time.monotonic()
    runner.ensure_shim()
    mod = mod_for(prop)
    src = src or runner.DEFAULT_SRC
    facts = tree.all_facts(src)
    n = cases or int(os.environ.get("RP2SIM_CASES", "0")) or mod.CASES[tier]
    base = 0 if tier == "quick" else THOROUGH_BASE
    indices = list(range(base, base + n))
    log("rp2sim check %s tier=%s VERIF_SEED=%d cases=%d src=%s" % (prop, tier, master, n, src))
    extra = {}
    outs = run_batch(prop, indices, master, src=src, wall_cap=mod.WALL_CAP[tier])
    if hasattr(mod, "extra_phase"):
        more, extra = mod.extra_phase(tier, master, facts, src, log)
        outs = outs + more
    # regression phase: every committed replay file of this property (repaired defects and known findings) is re-executed on every run
    reg_cases = []
    for sub in ("fixed", "known"):
        d = os.path.join(REGRESSION_DIR, sub)
        if os.path.isdir(d):
            for name in sorted(os.listdir(d)):
                if name.endswith(".json"):
                    with open(os.path.join(d, name), encoding="utf-8") as fh:
                        doc = json.load(fh)
                    if doc.get("property") == prop:
                        c = W.from_jsonable(doc["case"])
                        c["index"] = 2 * 10**9 + len(reg_cases)
                        c["_regression"] = "%s/%s" % (sub, name)
                        reg_cases.append(c)
    if reg_cases:
        reg_outs = run_cases(prop, reg_cases, src=src)
        for c, o in zip(reg_cases, reg_outs):
            if "stats" in o:
                o["stats"]["regression_replays"] = 1
                if o["violations"]:
                    o["stats"]["regression_replays_still_failing"] = 1
            log("regression replay %s: %s" % (c["_regression"], "no violation" if not o.get("violations") else sorted({minimize.vsig(prop, v) for v in o["violations"]})))
        outs = outs + reg_outs
    stats, sigs, nt_sigs, violations, herrs = aggregate(outs)
    if herrs:
        for h in herrs[:3]:
            log("HARNESS-ERROR case index=%s seed=%s: %s" % (h["index"], h["seed"], h["harness_error"][:3000]))
        log("HARNESS-ERROR: %d case(s) failed inside the harness" % len(herrs))
        return 2
    known = {} if os.environ.get("RP2SIM_IGNORE_KNOWN") else load_known()
    by_sig = {}
    for index, seed, v, vcase in violations:
        by_sig.setdefault(minimize.vsig(prop, v), []).append((index, seed, v, vcase))
    new_sigs = [s for s in by_sig if s not in known]
    for s in sorted(by_sig):
        if s in known:
            log("KNOWN-FINDING: %s (%d case(s) in this run)" % (known[s], len(by_sig[s])))
    reported = []
    min_info = {}
    for s in sorted(new_sigs)[: int(os.environ.get("RP2SIM_MAX_REPORTS", "4"))]:
        index, seed, v, case = sorted(by_sig[s], key=lambda t: t[0])[0]
        if os.environ.get("RP2SIM_NO_MINIMIZE"):
            small, info = case, {"runs": 0, "accepted": 0, "skipped": True}
        else:
            small, info = minimize.minimize(case, mod, facts, s, src=src, log=log)
        path = write_replay(prop, small, s, v, note="minimised from case index %d seed %d; %s" % (index, seed, info))
        oks = []
        for _ in range(2):
            env = dict(os.environ, PYTHONHASHSEED="0", RP2SIM_SRC=src)
            p = subprocess.run([sys.executable, "-m", "rp2sim", "replay", path], cwd=VERIF, env=env, capture_output=True, text=True, check=False)
            oks.append(p.returncode == 1)
        min_info[s] = dict(info, replayed_twice=oks)
        if not all(oks):
            small = case
            path = write_replay(prop, small, s, v, note="unminimised (minimised form did not replay twice): case index %d seed %d" % (index, seed))
        reported.append((s, path, v, len(by_sig[s])))
    for s, path, v, count in reported:
        log("VIOLATION property=%s replay=%s" % (prop, path))
        log("  signature=%s cases=%d detail=%s" % (s, count, str(v.get("detail"))[:400]))
    if len(new_sigs) > len(reported):
        log("  (+%d further distinct violation signatures not minimised: %s)" % (len(new_sigs) - len(reported), sorted(new_sigs)[len(reported):][:10]))
    vacuous = stats.get("vacuous_baseline_failed", 0) + stats.get("probe:reference_failed", 0)
    if vacuous * 2 > max(1, len(outs)):
        log("NOTE: %d of %d cases were vacuous (their fault-free reference run failed): this run says little about %s - the failures themselves are C16's business" % (vacuous, len(outs), prop))
    wall = time.monotonic() - t0
    if write_evidence:
        ev = build_evidence(prop, mod, tier, master, outs, stats, sigs, nt_sigs, violations, known, new_sigs, wall, extra, min_info, src)
        write_evidence_file(prop, ev)
    log("done: cases=%d runs=%d distinct=%d nontrivial=%d violations=%d new_signatures=%d wall=%.1fs" % (
        len(outs), stats.get("runs", 0), len(sigs), len(nt_sigs), len(violations), len(new_sigs), wall))
    return 1 if new_sigs else 0


def build_evidence(prop, mod, tier, master, outs, stats, sigs, nt_sigs, violations, known, new_sigs, wall, extra, min_info, src):
    runs = stats.get("runs", 0)
    samples = [o["sample"] for o in outs[:3] if "sample" in o]
    vs = [o["sample"] for o in outs if o.get("violations")][:3]
    probes = {k[6:]: v for k, v in sorted(stats.items()) if k.startswith("probe:")}
    wanted = getattr(mod, "PROBES", [])
    for p in wanted:
        probes.setdefault(p, 0)
    cov = {
        "evaluations": stats.get("evaluations") or len(outs),
        "cases": len(outs),
        "distinct_nontrivial": len(nt_sigs),
        "distinct_signatures": len(sigs),
        "rule": mod.RULE,
        "samples": samples + vs,
        "exhaustive": bool(extra.get("exhaustive", False)),
        "simulated_runs": runs,
        "runs_per_hour": round(runs / wall * 3600) if wall > 0 else 0,
        "cases_per_hour": round(len(outs) / wall * 3600) if wall > 0 else 0,
        "simulated_time_s": round(stats.get("sim_span_s", 0), 1),
        "clock_reads": stats.get("clock_reads", 0),
        "clock_jumps_fired": stats.get("clock_jumps_fired", 0),
        "perturbations_fired": {k[5:]: v for k, v in sorted(stats.items()) if k.startswith("pert:")},
        "faults_configured": {k[4:]: v for k, v in sorted(stats.items()) if k.startswith("cfg:")},
        "faults_fired": {k[6:]: v for k, v in sorted(stats.items()) if k.startswith("fault:")},
        "options": {k[4:]: v for k, v in sorted(stats.items()) if k.startswith("opt:")},
        "option_matrix_cells": {"distinct": len([k for k in stats if k.startswith("matrix:")]), "top": dict(sorted(((k[7:], v) for k, v in stats.items() if k.startswith("matrix:")), key=lambda kv: -kv[1])[:12])},
        "fault_kinds": {k[5:]: v for k, v in sorted(stats.items()) if k.startswith("kind:")},
        "rejection_sites": {k[5:]: v for k, v in sorted(stats.items()) if k.startswith("site:")},
        "modes": {k[5:]: v for k, v in sorted(stats.items()) if k.startswith("mode:")},
        "entry_points": {k[8:]: v for k, v in sorted(stats.items()) if k.startswith("country:")},
        "prestate": {k[9:]: v for k, v in sorted(stats.items()) if k.startswith("prestate:")},
        "probes": probes,
        "probes_stuck_at_zero": sorted(k for k, v in probes.items() if v == 0),
        "other_counters": {k: v for k, v in sorted(stats.items()) if ":" not in k and k not in ("runs", "sim_span_s", "clock_reads", "clock_jumps_fired")},
        "known_findings_matched": sorted(s for s in {minimize.vsig(prop, v) for _, _, v, _ in violations} if s in known),
        "new_violation_signatures": sorted(new_sigs),
        "minimisation": min_info,
        "components": {
            "real": ["CPython 3.12 interpreter (fresh process per run)", "all of rp2 from " + src, "ezodf, lxml, dateutil, babel, pycountry, jsonschema, prezzemolo", "kernel tmpfs / file system calls"],
            "simulated_or_stubbed": ["wall/monotonic clock and sleeps (LD_PRELOAD shim)", "PYTHONHASHSEED", "address-space layout (setarch -R or ASLR on)",
                                     "environment, argv, cwd", "random seed (ezodf temp names)", "stored bytes of config/spreadsheet and their corruption",
                                     "I/O errors (open/write/read/rename/remove/mkdir wrappers)", "process death (os._exit at an I/O step)",
                                     "network / DNS / process spawning (recording stub that always refuses)",
                                     "mount table (temp, home and data file systems: rename/link across them is EXDEV)",
                                     "scheduling of worker threads (ThreadPoolExecutor / ThreadPool / Thread tasks run serially in an order drawn from the schedule seed; dormant while the tree has no threads)"],
        },
        "source_tree": src,
    }
    cov.update(extra.get("coverage", {}))
    return {
        "property_id": prop,
        "tier": tier,
        "seed": master,
        "level": mod.LEVEL,
        "coverage": cov,
        "assumptions": getattr(mod, "ASSUMPTIONS", []),
        "wall_s": round(wall, 2),
        "violations": len(new_sigs),
    }


def write_evidence_file(prop, ev):
    os.makedirs(EVIDENCE_DIR, exist_ok=True)
    path = os.path.join(EVIDENCE_DIR, "%s.json" % prop)
    try:
        import jsonschema  # pylint: disable=import-outside-toplevel

        schema_path = "/root/.vp/EVIDENCE.schema.json"
        if not os.path.exists(schema_path):
            schema_path = os.path.join(VERIF, "rp2sim", "EVIDENCE.schema.json")
        if os.path.exists(schema_path):
            with open(schema_path, encoding="utf-8") as fh:
                jsonschema.validate(ev, json.load(fh))
    except ImportError:
        pass
    tmp = path + ".tmp"
    with open(tmp, "w", encoding="utf-8") as fh:
        json.dump(ev, fh, indent=1, sort_keys=True, ensure_ascii=False, default=str)
    os.replace(tmp, path)
    return path
