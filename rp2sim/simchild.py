"""Bootstrap that runs inside the simulated process (one fresh interpreter = one simulated run).

Started as:  python -P simchild.py <spec.json>
It owns every seam *before* any rp2 module is imported: seeds `random`, installs the fault
wrappers around open()/os.*, installs the audit hook (recorder, network/process refusal stub,
crash injection), rebinds rp2_main.compute_tax to a recording wrapper, then calls the real
console-script entry point with the simulated argv. The result (exit status, event log, clock
statistics, dumps) is written to a file outside the simulated world.

Only the standard library is imported here, and only modules that CPython's own start-up
has already loaded or that are harmless for the import-seam analysis.
"""
import builtins
import errno as _errno
import io
import json
import os
import sys

CLOCK_STATS_ID = 0x52503253

NET_EVENTS_PREFIX = ("socket.connect", "socket.bind", "socket.sendto", "socket.sendmsg", "socket.getaddrinfo",
                     "socket.gethostbyname", "socket.gethostbyaddr", "socket.getnameinfo", "socket.getservbyname",
                     "socket.getservbyport", "urllib.Request", "http.client.connect", "http.client.send",
                     "ftplib.connect", "ftplib.sendcmd", "smtplib.connect", "smtplib.send", "imaplib.open",
                     "imaplib.send", "poplib.connect", "poplib.putline", "nntplib.connect", "nntplib.putline",
                     "telnetlib.Telnet.open", "telnetlib.Telnet.write", "webbrowser.open")
PROC_EVENTS = ("subprocess.Popen", "os.system", "os.exec", "os.fork", "os.forkpty", "os.posix_spawn", "os.spawn",
               "pty.spawn", "os.startfile", "_posixsubprocess.fork_exec", "os.kill", "os.killpg")
FS_MUTATING = ("os.rename", "os.remove", "os.mkdir", "os.rmdir", "os.chmod", "os.chown", "os.truncate", "os.link",
               "os.symlink", "os.utime", "os.setxattr", "os.removexattr", "os.chflags", "os.lchflags", "os.mkfifo", "os.mknod")
FS_INFO = ("os.chdir", "os.listdir", "os.scandir", "shutil.copyfile", "shutil.copymode", "shutil.copystat", "shutil.copytree",
           "shutil.rmtree", "shutil.move", "shutil.chown", "shutil.make_archive", "shutil.unpack_archive",
           "tempfile.mkstemp", "tempfile.mkdtemp", "glob.glob", "ctypes.dlopen", "socket.__new__", "socket.gethostname",
           "os.putenv", "os.unsetenv", "mmap.__new__", "fcntl.flock", "fcntl.lockf", "signal.pthread_kill", "syslog.openlog", "syslog.syslog")
MOUNT_OF = {"tmpdir": "tmp", "home": "home"}
WRITE_FLAGS = os.O_WRONLY | os.O_RDWR | os.O_APPEND | os.O_CREAT | os.O_TRUNC


def classify(real, layout):
    """Path class of an absolute, symlink-resolved path relative to the world layout."""
    def under(root):
        return root is not None and (real == root or real.startswith(root.rstrip("/") + "/"))

    if real == layout.get("config"):
        return "config"
    if real == layout.get("input"):
        return "input"
    out = layout.get("output_dir")
    log = layout.get("log_dir")
    if out is not None and real == out:
        return "output_dir"
    # ./log first: with "-o ." the log directory lies inside the output directory and stays the log directory
    if log is not None and real == log:
        return "log_dir"
    if under(log):
        return "log"
    if under(out):
        return "output_tmp" if real.endswith(".tmp") else "output"
    if out is not None and out.startswith(real.rstrip("/") + "/") and under(layout.get("world")):
        return "output_ancestor"
    if under(layout.get("template_dir")):
        return "template"
    if under(layout.get("home")):
        return "home"
    if under(layout.get("tmpdir")):
        return "tmpdir"
    if under(layout.get("world")):
        return "world_other"
    if under(layout.get("src")):
        return "src"
    for r in layout.get("python_roots", []):
        if under(r):
            return "python"
    return "outside"


class _Sim:
    def __init__(self, spec):
        self.spec = spec
        self.layout = spec["layout"]
        self.events = []
        self.seq = 0
        self.armed = False
        self.quiet_reads = {}
        self.io_steps = 0
        self.crash_at = spec.get("crash_at")
        self.interrupt_at = spec.get("interrupt_at")
        self.interrupted = False
        self.crashed = False
        self.faults = [dict(f, fired=0, seen=0) for f in spec.get("faults", [])]
        self.fault_log = []
        self.imports = []
        self.import_seen = set()
        self.dumps = []
        self.dump_errors = []
        self.patched_compute_tax = False
        self.in_hook = False
        self.cwd = os.getcwd()
        self.real_open = builtins.open
        self.real = {}
        self.sched = None

    # ---------------------------------------------------------------- helpers
    def norm(self, path, follow_last=True):
        """(absolute path, symlink-resolved path). follow_last=False for operations that act on a directory entry itself
        (rename, remove, mkdir, rmdir, symlink, link): only the parent directory is resolved."""
        try:
            if isinstance(path, int):
                return None, None
            p = os.fspath(path)
            if isinstance(p, bytes):
                p = os.fsdecode(p)
            a = os.path.normpath(os.path.join(os.getcwd(), p))
            if follow_last:
                return a, os.path.realpath(a)
            return a, os.path.join(os.path.realpath(os.path.dirname(a)), os.path.basename(a))
        except Exception:  # pylint: disable=broad-except
            return repr(path), repr(path)

    def record(self, ev, **kw):
        self.seq += 1
        kw["seq"] = self.seq
        kw["ev"] = ev
        self.events.append(kw)

    def io_step(self, what):
        """A point at which the simulated process can be killed (kill -9)."""
        self.io_steps += 1
        if self.interrupt_at is not None and self.io_steps == self.interrupt_at and not self.interrupted:
            # Ctrl-C (SIGINT) delivered while the program is inside this I/O call: Python raises KeyboardInterrupt there
            self.interrupted = True
            self.record("sim.interrupt", at=what, step=self.io_steps)
            raise KeyboardInterrupt()
        if self.crash_at is not None and self.io_steps == self.crash_at:
            self.crashed = True
            self.record("sim.crash", at=what, step=self.io_steps)
            self.finish(137, hard=True)

    def match_fault(self, op, cls, mode=None):
        for f in self.faults:
            if f["op"] != op or f.get("done"):
                continue
            if f.get("cls") not in (None, cls):
                continue
            if f.get("mode") not in (None, "any", mode):
                continue
            f["seen"] += 1
            if f["seen"] == f.get("nth", 1):
                f["done"] = True
                f["fired"] += 1
                return f
        return None

    # ---------------------------------------------------------------- audit hook
    def hook(self, event, args):
        if not self.armed or self.in_hook:
            return
        self.in_hook = True
        try:
            self._hook(event, args)
        finally:
            self.in_hook = False

    def _hook(self, event, args):
        if event == "open":
            path, mode, flags = args[0], args[1], args[2]
            if isinstance(path, int):
                return
            a, real = self.norm(path)
            writing = bool(flags & WRITE_FLAGS) if isinstance(flags, int) else any(c in (mode or "") for c in "wax+")
            cls = classify(real, self.layout)
            if not writing and cls in ("python", "src", "outside"):
                self.quiet_reads[cls] = self.quiet_reads.get(cls, 0) + 1
                if cls != "outside" or real.startswith(("/usr/", "/etc/", "/lib", "/proc/self", "/dev/urandom", "/dev/null")):
                    return
            self.record("open", path=a, real=real, cls=cls, w=writing, mode=mode, flags=flags if isinstance(flags, int) else None)
            if writing and cls not in ("python",):
                self.io_step("open:" + cls)
            return
        if event == "sqlite3.connect":
            # the database file is opened by the C library, not through open(): treat it as a write-open of that path
            path = args[0]
            if isinstance(path, (str, bytes)) or hasattr(path, "__fspath__"):
                p = os.fsdecode(os.fspath(path))
                if p != ":memory:" and not p.startswith("file::memory:") and p != "":
                    a, real = self.norm(p)
                    self.record("open", path=a, real=real, cls=classify(real, self.layout), w=True, mode="sqlite3", flags=None)
                    self.io_step("open:sqlite3")
            return
        if event == "import":
            name = args[0]
            importer = None
            f = sys._getframe(1)  # pylint: disable=protected-access
            while f is not None:
                mod = f.f_globals.get("__name__", "")
                if not mod.startswith(("importlib", "_frozen_importlib", "zipimport")) and f.f_globals is not globals():
                    importer = mod
                    break
                f = f.f_back
            key = (importer, name)
            if key not in self.import_seen:
                self.import_seen.add(key)
                self.imports.append([importer, name])
            return
        if event in FS_MUTATING:
            paths = []
            for x in args[:2]:
                if isinstance(x, (str, bytes)) or hasattr(x, "__fspath__"):
                    paths.append(x)
            recs = []
            entry_op = event in ("os.rename", "os.remove", "os.rmdir", "os.mkdir", "os.symlink", "os.link", "os.mkfifo", "os.mknod")
            for p in paths:
                a, real = self.norm(p, follow_last=not entry_op)
                recs.append({"path": a, "real": real, "cls": classify(real, self.layout)})
            if event in ("os.mkdir", "os.chmod", "os.truncate", "os.utime", "os.rmdir", "os.remove", "os.chown"):
                recs = recs[:1]
            self.record(event, targets=recs)
            self.io_step(event)
            return
        if event.startswith(NET_EVENTS_PREFIX):
            detail = None
            fam = None
            try:
                if event in ("socket.connect", "socket.bind", "socket.sendto", "socket.sendmsg"):
                    fam = int(args[0].family)
                    detail = repr(args[1])[:200]
                else:
                    detail = repr(args[:2])[:200]
            except Exception:  # pylint: disable=broad-except
                pass
            self.record("net", name=event, family=fam, detail=detail)
            raise OSError(_errno.ENETUNREACH, "rp2sim: network refused by the simulator (%s)" % event)
        if event in PROC_EVENTS or event.startswith(("os.exec", "os.spawn", "os.posix_spawn")):
            self.record("proc", name=event, detail=repr(args[:2])[:300])
            raise PermissionError(_errno.EPERM, "rp2sim: process facilities refused by the simulator (%s)" % event)
        if event in FS_INFO:
            d = None
            try:
                d = repr(args[:2])[:200]
            except Exception:  # pylint: disable=broad-except
                pass
            if event in ("os.listdir", "os.scandir"):
                a, real = self.norm(args[0] if args and args[0] is not None else ".")
                cls = classify(real, self.layout)
                if cls in ("python", "src"):
                    return
                self.record(event, path=a, real=real, cls=cls)
                return
            self.record("info", name=event, detail=d)

    # ---------------------------------------------------------------- fault wrappers
    def install_wrappers(self):
        sim = self
        real_open = builtins.open

        def sim_open(file, mode="r", *a, **k):
            if not sim.armed or isinstance(file, int):
                return real_open(file, mode, *a, **k)
            ab, real = sim.norm(file)
            cls = classify(real, sim.layout)
            writing = any(c in mode for c in "wax+")
            m = "w" if writing else "r"
            f = sim.match_fault("vanish", cls, m) if cls in ("config", "input", "output", "output_tmp", "log") else None
            if f is not None:
                sim.fault_log.append({"fault": "vanish", "cls": cls, "path": ab})
                try:
                    sim.armed = False
                    os.remove(real)
                finally:
                    sim.armed = True
            f = sim.match_fault("open", cls, m)
            if f is not None:
                sim.fault_log.append({"fault": "open", "cls": cls, "errno": f["errno"], "path": ab, "mode": mode})
                code = getattr(_errno, f["errno"])
                raise OSError(code, os.strerror(code), str(file))
            fobj = real_open(file, mode, *a, **k)
            if cls in ("python", "src", "outside"):
                return fobj
            wf = sim.match_fault("write", cls, m) if writing else None
            rf = sim.match_fault("read", cls, m) if not writing else None
            track = writing and (sim.crash_at is not None or sim.interrupt_at is not None)
            if wf is None and rf is None and not track:
                return fobj
            return _FileProxy(sim, fobj, cls, ab, wf, rf)

        builtins.open = sim_open
        io.open = sim_open

        def wrap_os(name, op, first_only=True):
            real_fn = getattr(os, name)
            sim.real[name] = real_fn

            def wrapper(*a, **k):
                if sim.armed and a:
                    ab, real = sim.norm(a[0], follow_last=False)
                    cls = classify(real, sim.layout)
                    if op in ("rename", "link") and len(a) > 1:
                        _, real2 = sim.norm(a[1], follow_last=False)
                        cls2 = classify(real2, sim.layout)
                        # simulated mount table: the temp directory, the home directory and everything else are three file systems
                        # (as /tmp, /home and a data disk usually are): rename and link do not cross them
                        if MOUNT_OF.get(cls, "data") != MOUNT_OF.get(cls2, "data"):
                            sim.record("sim.xdev", op=name, src=cls, dst=cls2)
                            raise OSError(_errno.EXDEV, os.strerror(_errno.EXDEV), str(a[0]))
                        f = (sim.match_fault(op, cls2) or sim.match_fault(op, cls)) if op == "rename" else None
                    else:
                        f = sim.match_fault(op, cls)
                    if f is not None:
                        sim.fault_log.append({"fault": op, "cls": cls, "errno": f["errno"], "path": ab})
                        code = getattr(_errno, f["errno"])
                        raise OSError(code, os.strerror(code), str(a[0]))
                return real_fn(*a, **k)

            wrapper.__name__ = name
            setattr(os, name, wrapper)

        wrap_os("rename", "rename")
        wrap_os("replace", "rename")
        wrap_os("remove", "remove")
        wrap_os("unlink", "remove")
        wrap_os("mkdir", "mkdir")
        wrap_os("rmdir", "rmdir")
        wrap_os("link", "link")

    # ---------------------------------------------------------------- compute_tax recorder
    def patch_compute_tax(self):
        try:
            import rp2.rp2_main as m  # pylint: disable=import-outside-toplevel

            orig = m.compute_tax
        except Exception:  # pylint: disable=broad-except
            return
        sim = self

        def recording_compute_tax(*a, **k):
            result = orig(*a, **k)
            was = sim.armed
            sim.armed = False
            try:
                sim.dumps.append(_dump_computed(result))
            except Exception as exc:  # pylint: disable=broad-except
                sim.dump_errors.append("%s: %s" % (type(exc).__name__, exc))
            finally:
                sim.armed = was
            return result

        m.compute_tax = recording_compute_tax
        self.patched_compute_tax = True

    # ---------------------------------------------------------------- end of run
    def finish(self, code, hard=False, py_exception=None):
        self.armed = False
        if not hard:
            try:
                import logging  # pylint: disable=import-outside-toplevel

                logging.shutdown()
            except Exception:  # pylint: disable=broad-except
                pass
            for s in (sys.stdout, sys.stderr):
                try:
                    s.flush()
                except Exception:  # pylint: disable=broad-except
                    pass
        clock = None
        try:
            import time  # pylint: disable=import-outside-toplevel

            if os.environ.get("RP2SIM_EPOCH_NS"):
                v = time.clock_gettime_ns(CLOCK_STATS_ID)
                clock = {"reads": v // 10**9, "jumps": (v % 10**9) // 1000, "sleeps": v % 1000}
        except Exception:  # pylint: disable=broad-except
            pass
        result = {
            "exit": code,
            "crashed": self.crashed,
            "interrupted": self.interrupted,
            "events": self.events,
            "quiet_reads": self.quiet_reads,
            "io_steps": self.io_steps,
            "faults": self.fault_log,
            "imports": self.imports if self.spec.get("record_imports") else None,
            "dumps": self.dumps if self.spec.get("dump") else None,
            "dump_errors": self.dump_errors,
            "patched_compute_tax": self.patched_compute_tax,
            "clock": clock,
            "py_exception": py_exception,
            "sched_steps": getattr(getattr(self, "sched", None), "steps", 0),
            "modules_rp2": sorted(m for m in sys.modules if m == "rp2" or m.startswith("rp2.")),
        }
        tmp = self.spec["result_path"] + ".part"
        with self.real_open(tmp, "w", encoding="utf-8") as fh:
            json.dump(result, fh)
        self.real.get("rename", os.rename)(tmp, self.spec["result_path"])
        os._exit(code if isinstance(code, int) and 0 <= code < 256 else 1)  # pylint: disable=protected-access


class _FileProxy:
    """File object proxy: counts bytes, injects write/read faults, offers crash points."""

    def __init__(self, sim, fobj, cls, path, wfault, rfault):
        self.__dict__["_p"] = (sim, fobj, cls, path, wfault, rfault)
        self.__dict__["_n"] = 0

    def __getattr__(self, name):
        return getattr(self._p[1], name)

    def __setattr__(self, name, value):
        setattr(self._p[1], name, value)

    def __enter__(self):
        self._p[1].__enter__()
        return self

    def __exit__(self, *a):
        return self._p[1].__exit__(*a)

    def __iter__(self):
        return self

    def __next__(self):
        line = self.readline()
        if not line:
            raise StopIteration
        return line

    def write(self, data):
        sim, fobj, cls, path, wf, _ = self._p
        if sim.armed:
            sim.io_step("write:" + cls)
            if wf is not None and not wf.get("spent"):
                limit = wf.get("after_bytes", 0)
                n = len(data)
                if self._n + n > limit:
                    keep = max(0, limit - self._n)
                    if keep:
                        fobj.write(data[:keep])
                        self.__dict__["_n"] += keep
                    try:
                        fobj.flush()
                    except Exception:  # pylint: disable=broad-except
                        pass
                    wf["spent"] = True
                    code = getattr(_errno, wf["errno"])
                    sim.fault_log.append({"fault": "write", "cls": cls, "errno": wf["errno"], "path": path, "after": self._n})
                    raise OSError(code, os.strerror(code), path)
        r = fobj.write(data)
        self.__dict__["_n"] += len(data)
        return r

    def writelines(self, lines):
        for line in lines:
            self.write(line)

    def _rfault(self, want):
        sim, _, cls, path, _, rf = self._p
        if rf is None or rf.get("spent") or not sim.armed:
            return None
        limit = rf.get("after_bytes", 0)
        if want is None or want < 0 or self._n + want > limit:
            return max(0, limit - self._n)
        return None

    def _rfail(self):
        sim, _, cls, path, _, rf = self._p
        rf["spent"] = True
        sim.fault_log.append({"fault": "read", "cls": cls, "errno": rf["errno"], "path": path, "after": self._n})
        if rf["errno"] == "EOF":
            return
        code = getattr(_errno, rf["errno"])
        raise OSError(code, os.strerror(code), path)

    def read(self, size=-1):
        keep = self._rfault(size)
        fobj = self._p[1]
        if keep is not None:
            data = fobj.read(keep) if keep else fobj.read(0)
            self.__dict__["_n"] += len(data)
            if len(data) >= keep:
                self._rfail()
            return data
        data = fobj.read(size)
        self.__dict__["_n"] += len(data)
        return data

    def readline(self, size=-1):
        fobj = self._p[1]
        rf = self._p[5]
        if rf is not None and not rf.get("spent") and self._p[0].armed and self._n >= rf.get("after_bytes", 0):
            self._rfail()
            return fobj.read(0)
        line = fobj.readline(size)
        self.__dict__["_n"] += len(line)
        return line

    def readlines(self, hint=-1):
        return list(self)


def _dec(x):
    return str(x)


def _tx_key(t):
    return "%s:%s" % (type(t).__name__, t.unique_id)


def _dump_tx(t):
    d = {"k": _tx_key(t), "ts": t.timestamp.isoformat(), "type": t.transaction_type.value, "spot": _dec(t.spot_price),
         "asset": t.asset, "notes": t.notes, "taxable": bool(t.is_taxable()),
         "cta": _dec(t.crypto_taxable_amount), "fta": _dec(t.fiat_taxable_amount), "cbc": _dec(t.crypto_balance_change),
         "fbc": _dec(t.fiat_balance_change)}
    for attr in ("exchange", "holder", "crypto_in", "crypto_fee", "fiat_in_no_fee", "fiat_in_with_fee", "fiat_fee",
                 "crypto_out_no_fee", "crypto_out_with_fee", "fiat_out_no_fee", "fiat_out_with_fee",
                 "from_exchange", "from_holder", "to_exchange", "to_holder", "crypto_sent", "crypto_received"):
        if hasattr(t, attr):
            d[attr] = _dec(getattr(t, attr))
    return d


def _dump_computed(cd):
    out = {"asset": cd.asset}
    out["in"] = []
    for t in cd.in_transaction_set:
        e = _dump_tx(t)
        e["running"] = _dec(cd.get_crypto_in_running_sum(t))
        e["sold_pct"] = _dec(cd.get_in_lot_sold_percentage(t))
        out["in"].append(e)
    out["out"] = []
    for t in cd.out_transaction_set:
        e = _dump_tx(t)
        e["running"] = _dec(cd.get_crypto_out_running_sum(t))
        e["fee_running"] = _dec(cd.get_crypto_out_fee_running_sum(t))
        out["out"].append(e)
    out["intra"] = []
    for t in cd.intra_transaction_set:
        e = _dump_tx(t)
        e["fee_running"] = _dec(cd.get_crypto_intra_fee_running_sum(t))
        out["intra"].append(e)
    out["taxable"] = [_tx_key(t) for t in cd.taxable_event_set]
    gls = cd.gain_loss_set
    out["gain_loss"] = []
    for g in gls:
        e = {"event": _tx_key(g.taxable_event), "lot": _tx_key(g.acquired_lot) if g.acquired_lot else None,
             "amount": _dec(g.crypto_amount), "cost": _dec(g.fiat_cost_basis), "gain": _dec(g.fiat_gain),
             "long": bool(g.is_long_term_capital_gains()),
             "ev_frac": [gls.get_taxable_event_fraction(g), gls.get_taxable_event_number_of_fractions(g.taxable_event)],
             "ev_pct": _dec(g.taxable_event_fraction_percentage),
             "ev_fiat": _dec(g.taxable_event_fiat_amount_with_fee_fraction),
             "running": _dec(cd.get_crypto_gain_loss_running_sum(g))}
        if g.acquired_lot:
            e["lot_frac"] = [gls.get_acquired_lot_fraction(g), gls.get_acquired_lot_number_of_fractions(g.acquired_lot)]
            e["lot_pct"] = _dec(g.acquired_lot_fraction_percentage)
            e["lot_fiat"] = _dec(g.acquired_lot_fiat_amount_with_fee_fraction)
        out["gain_loss"].append(e)
    out["yearly"] = [[y.year, y.asset, y.transaction_type.value, bool(y.is_long_term_capital_gains), _dec(y.crypto_amount),
                      _dec(y.fiat_amount), _dec(y.fiat_cost_basis), _dec(y.fiat_gain_loss)] for y in cd.yearly_gain_loss_list]
    out["balances"] = [[b.exchange, b.holder, _dec(b.final_balance), _dec(b.acquired_balance), _dec(b.sent_balance),
                        _dec(b.received_balance)] for b in cd.balance_set]
    out["price_per_unit"] = _dec(cd.price_per_unit)
    return out


# ------------------------------------------------------------------------------ seeded scheduling of threads
#
# RP2 has no threads. Should a change introduce them (a thread pool around the per-asset loop, report generators run in parallel), the
# order in which the workers finish would be decided by the operating system: results that depend on it fail one run in N and do not
# replay. The seam below puts that order under the simulator: tasks given to concurrent.futures.ThreadPoolExecutor,
# multiprocessing.pool.ThreadPool / multiprocessing.dummy.Pool and threading.Thread are not handed to OS threads; they are queued and
# executed one at a time, to completion, in an order drawn from random.Random(sched_seed), at the points where the submitting code
# waits for them (result(), as_completed(), wait(), map(), join(), shutdown(), Queue.get(), Event.wait(), interpreter exit).
# One seed = one completion order, replayed exactly; other seeds explore other orders. Interleavings *inside* a task (two workers
# mutating shared state mid-way) are not explored: tasks are atomic here. Dormant on a tree without threads.


class _Sched:
    def __init__(self, sim, seed):
        import random  # pylint: disable=import-outside-toplevel

        self.sim = sim
        self.rng = random.Random(seed)
        self.pending = []  # [label, owner, callable]
        self.completed = 0
        self.steps = 0
        self.running = 0

    def add(self, label, owner, fn):
        self.pending.append([label, owner, fn])

    def step(self, among=None):
        """Run one pending task chosen by the seeded generator (restricted to owners in `among` when given). False if none."""
        idx = [i for i, t in enumerate(self.pending) if among is None or t[1] in among]
        if not idx:
            return False
        i = idx[self.rng.randrange(len(idx))]
        label, owner, fn = self.pending.pop(i)
        self.steps += 1
        self.sim.record("sim.sched", step=self.steps, chose=label, of=len(idx))
        self.running += 1
        try:
            fn()
        finally:
            self.running -= 1
        return True

    def drain(self, among=None):
        while self.step(among):
            pass


def _install_sched(sim, seed):  # pylint: disable=too-many-statements,too-many-locals
    import concurrent.futures as cf  # pylint: disable=import-outside-toplevel
    import concurrent.futures.thread as cft  # pylint: disable=import-outside-toplevel
    import queue  # pylint: disable=import-outside-toplevel
    import threading  # pylint: disable=import-outside-toplevel

    sched = _Sched(sim, seed)
    sim.sched = sched

    class SimFuture(cf.Future):
        def __init__(self, owner):
            super().__init__()
            self.sim_owner = owner
            self.sim_seq = None

        def _drive(self):
            while not cf.Future.done(self) and sched.step():
                pass

        def result(self, timeout=None):
            self._drive()
            return super().result(timeout)

        def exception(self, timeout=None):
            self._drive()
            return super().exception(timeout)

        def done(self):
            if not super().done():
                sched.step()  # a polling loop makes progress
            return super().done()

    def make_task(fut, fn, args, kwargs, before=None):
        def task():
            if not fut.set_running_or_notify_cancel():
                return
            try:
                if before:
                    before()
                res = fn(*args, **kwargs)
            except BaseException as exc:  # pylint: disable=broad-except
                sched.completed += 1
                fut.sim_seq = sched.completed
                fut.set_exception(exc)
            else:
                sched.completed += 1
                fut.sim_seq = sched.completed
                fut.set_result(res)
        return task

    counter = [0]

    class SimThreadPoolExecutor:
        def __init__(self, max_workers=None, thread_name_prefix="", initializer=None, initargs=()):
            counter[0] += 1
            self.sim_id = "pool%d" % counter[0]
            self._max_workers = max_workers or 4
            self._init = (initializer, initargs)
            self._inited = False
            self._shutdown = False
            self._n = 0
            del thread_name_prefix

        def _before(self):
            if not self._inited:
                self._inited = True
                if self._init[0]:
                    self._init[0](*self._init[1])

        def submit(self, fn, /, *args, **kwargs):
            if self._shutdown:
                raise RuntimeError("cannot schedule new futures after shutdown")
            fut = SimFuture(self)
            self._n += 1
            sched.add("%s.task%d" % (self.sim_id, self._n), self, make_task(fut, fn, args, kwargs, self._before))
            return fut

        def map(self, fn, *iterables, timeout=None, chunksize=1):
            del timeout, chunksize
            futs = [self.submit(fn, *a) for a in zip(*iterables)]

            def gen():
                for f in futs:
                    yield f.result()
            return gen()

        def shutdown(self, wait=True, *, cancel_futures=False):
            self._shutdown = True
            if cancel_futures:
                sched.pending[:] = [t for t in sched.pending if t[1] is not self]
            elif wait:
                sched.drain({self})

        def __enter__(self):
            return self

        def __exit__(self, *a):
            self.shutdown(wait=True)
            return False

    real_as_completed, real_wait = cf.as_completed, cf.wait

    def as_completed(fs, timeout=None):
        fs = list(fs)
        simf = [f for f in fs if isinstance(f, SimFuture)]
        rest = [f for f in fs if not isinstance(f, SimFuture)]
        remaining = set(simf)
        while remaining:
            ready = sorted((f for f in remaining if cf.Future.done(f)), key=lambda f: f.sim_seq or 0)
            if ready:
                remaining.discard(ready[0])
                yield ready[0]
            elif not sched.step():
                break
        for f in remaining:
            yield f
        if rest:
            yield from real_as_completed(rest, timeout)

    def wait(fs, timeout=None, return_when=cf.ALL_COMPLETED):
        fs = list(fs)
        simf = [f for f in fs if isinstance(f, SimFuture)]
        if return_when == cf.ALL_COMPLETED:
            while any(not cf.Future.done(f) for f in simf) and sched.step():
                pass
        else:
            while simf and not any(cf.Future.done(f) for f in simf) and sched.step():
                pass
        return real_wait(fs, timeout, return_when)

    cf.ThreadPoolExecutor = SimThreadPoolExecutor
    cft.ThreadPoolExecutor = SimThreadPoolExecutor
    cf.as_completed = as_completed
    cf.wait = wait
    try:
        import concurrent.futures._base as cfb  # pylint: disable=import-outside-toplevel

        cfb.as_completed = as_completed
        cfb.wait = wait
    except Exception:  # pylint: disable=broad-except
        pass

    # threading.Thread: start() queues the body, join() / blocking waits / interpreter exit run it
    real_start, real_join, real_alive = threading.Thread.start, threading.Thread.join, threading.Thread.is_alive
    tcount = [0]

    def t_start(self):
        if not sim.armed or getattr(self, "_sim_state", None) is not None:
            return real_start(self)
        tcount[0] += 1
        self._sim_state = "queued"
        label = "thread%d:%s" % (tcount[0], self.name if not self.name.startswith("Thread-") else "anon")

        def body():
            self._sim_state = "running"
            try:
                self.run()
            except BaseException:  # pylint: disable=broad-except
                import traceback  # pylint: disable=import-outside-toplevel

                traceback.print_exc()
            finally:
                self._sim_state = "done"
        sched.add(label, self, body)
        return None

    def t_join(self, timeout=None):
        st = getattr(self, "_sim_state", None)
        if st is None:
            return real_join(self, timeout)
        while self._sim_state == "queued" and sched.step():
            pass
        return None

    def t_alive(self):
        st = getattr(self, "_sim_state", None)
        if st is None:
            return real_alive(self)
        return st in ("queued", "running")

    threading.Thread.start = t_start
    threading.Thread.join = t_join
    threading.Thread.is_alive = t_alive

    real_get = queue.Queue.get

    def q_get(self, block=True, timeout=None):
        if block:
            while self.empty() and sched.step():
                pass
        return real_get(self, block, timeout)

    queue.Queue.get = q_get
    real_ewait = threading.Event.wait

    def e_wait(self, timeout=None):
        while not self.is_set() and sched.step():
            pass
        return real_ewait(self, timeout)

    threading.Event.wait = e_wait

    # multiprocessing.pool.ThreadPool / multiprocessing.dummy.Pool
    class SimAsyncResult:
        def __init__(self, futs, single):
            self._futs, self._single = futs, single

        def get(self, timeout=None):
            res = [f.result() for f in self._futs]
            return res[0] if self._single else res

        def wait(self, timeout=None):
            for f in self._futs:
                f.exception()

        def ready(self):
            return all(f.done() for f in self._futs)

        def successful(self):
            return all(f.exception() is None for f in self._futs)

    class SimThreadPool:
        def __init__(self, processes=None, initializer=None, initargs=()):
            self._ex = SimThreadPoolExecutor(processes, initializer=initializer, initargs=initargs)

        def apply(self, func, args=(), kwds=None):
            return self._ex.submit(func, *args, **(kwds or {})).result()

        def apply_async(self, func, args=(), kwds=None, callback=None, error_callback=None):
            f = self._ex.submit(func, *args, **(kwds or {}))
            if callback or error_callback:
                f.add_done_callback(lambda fu: (callback(fu.result()) if fu.exception() is None and callback else (error_callback(fu.exception()) if fu.exception() is not None and error_callback else None)))
            return SimAsyncResult([f], True)

        def map(self, func, iterable, chunksize=None):
            return list(self._ex.map(func, iterable))

        def map_async(self, func, iterable, chunksize=None, callback=None, error_callback=None):
            return SimAsyncResult([self._ex.submit(func, x) for x in iterable], False)

        def starmap(self, func, iterable, chunksize=None):
            return [f.result() for f in [self._ex.submit(func, *x) for x in iterable]]

        def imap(self, func, iterable, chunksize=1):
            return self._ex.map(func, iterable)

        def imap_unordered(self, func, iterable, chunksize=1):
            futs = [self._ex.submit(func, x) for x in iterable]
            return (f.result() for f in as_completed(futs))

        def close(self):
            pass

        def terminate(self):
            self._ex.shutdown(wait=False, cancel_futures=True)

        def join(self):
            self._ex.shutdown(wait=True)

        def __enter__(self):
            return self

        def __exit__(self, *a):
            self.terminate()
            return False

    try:
        import multiprocessing.dummy as mpd  # pylint: disable=import-outside-toplevel
        import multiprocessing.pool as mpp  # pylint: disable=import-outside-toplevel

        mpp.ThreadPool = SimThreadPool
        mpd.Pool = lambda processes=None, initializer=None, initargs=(): SimThreadPool(processes, initializer, initargs)
    except Exception:  # pylint: disable=broad-except
        pass
    return sched


def main():
    with open(sys.argv[1], encoding="utf-8") as fh:
        spec = json.load(fh)
    import random  # pylint: disable=import-outside-toplevel

    random.seed(spec.get("random_seed", 0))
    sim = _Sim(spec)
    sim.install_wrappers()
    if spec.get("sched", True):
        _install_sched(sim, spec.get("sched_seed", 0))
    sys.addaudithook(sim.hook)
    sys.argv = [spec.get("prog", "rp2")] + list(spec["argv"])
    code = 0
    py_exc = None
    sim.armed = True
    try:
        import importlib  # pylint: disable=import-outside-toplevel

        if spec.get("walk_packages"):
            import pkgutil  # pylint: disable=import-outside-toplevel

            import rp2  # pylint: disable=import-outside-toplevel

            failed = []
            for info in pkgutil.walk_packages(rp2.__path__, "rp2."):
                try:
                    importlib.import_module(info.name)
                except BaseException as exc:  # pylint: disable=broad-except
                    failed.append([info.name, "%s: %s" % (type(exc).__name__, exc)])
            sim.record("walk_packages", failed=failed)
        else:
            module = importlib.import_module(spec["entry_module"])
            if spec.get("dump"):
                sim.armed = False
                sim.patch_compute_tax()
                sim.armed = True
            module.rp2_entry()
    except SystemExit as exc:
        c = exc.code
        if c is None:
            code = 0
        elif isinstance(c, int):
            code = c
        else:
            try:
                sys.stderr.write(str(c) + "\n")
            except Exception:  # pylint: disable=broad-except
                pass
            code = 1
    except BaseException as exc:  # pylint: disable=broad-except
        # an exception that reaches the top of the interpreter: sys.excepthook is called (under the hook: a crash reporter installed by
        # the program is part of the run), the exit status is 1 (130 after Ctrl-C, as the shell reports it)
        py_exc = "%s: %s" % (type(exc).__name__, exc)
        code = 130 if isinstance(exc, KeyboardInterrupt) else 1
        try:
            sys.excepthook(type(exc), exc, exc.__traceback__)
        except BaseException as exc2:  # pylint: disable=broad-except
            sys.stderr.write("Error in sys.excepthook: %s: %s\n" % (type(exc2).__name__, exc2))
    # what a real interpreter does between the end of main and process exit, still under the hook: join non-daemon threads, run
    # atexit handlers (a cache flushed "on exit", a report written from an atexit hook ... must be seen by the monitors too)
    sim.armed = True
    try:
        if getattr(sim, "sched", None) is not None:
            # what threading._shutdown() does for non-daemon threads: wait for them (here: run what is still queued, seeded order)
            sim.sched.drain()
        th = sys.modules.get("threading")
        if th is not None and th.active_count() > 1:
            sim.record("info", name="threads-alive-at-exit", detail=repr(sorted(t.name for t in th.enumerate()))[:200])
            th._shutdown()  # pylint: disable=protected-access
        import atexit  # pylint: disable=import-outside-toplevel

        atexit._run_exitfuncs()  # pylint: disable=protected-access
    except SystemExit:
        pass
    except BaseException as exc:  # pylint: disable=broad-except
        sys.stderr.write("exception during interpreter shutdown: %s: %s\n" % (type(exc).__name__, exc))
    sim.finish(code, py_exception=py_exc)


if __name__ == "__main__":
    try:
        main()
    except BaseException as exc:  # pylint: disable=broad-except
        import traceback

        sys.stderr.write("RP2SIM-CHILD-HARNESS-ERROR\n")
        traceback.print_exc()
        sys.stderr.flush()
        os._exit(70)  # pylint: disable=protected-access
