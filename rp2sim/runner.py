"""Parent side of one simulated run: lay out the world on tmpfs, spawn the child interpreter
under the clock shim / hash seed / ASLR setting of the simulated host, collect what happened."""
import hashlib
import io
import json
import os
import re
import shutil
import signal
import subprocess
import sys
import time
import zipfile

from . import simchild, sysmon

HERE = os.path.dirname(os.path.abspath(__file__))
VERIF = os.path.dirname(HERE)
SHIM_SRC = os.path.join(HERE, "shim", "clockshim.c")
SHIM_SO = os.path.join(VERIF, "build", "clockshim.so")
PYTHON = "/venv/bin/python"
CHILD = os.path.join(HERE, "simchild.py")
DEFAULT_SRC = os.environ.get("RP2SIM_SRC", "/repo/src")
RUN_TIMEOUT = float(os.environ.get("RP2SIM_RUN_TIMEOUT", "60"))

COMMON_HELPERS = ["soffice", "libreoffice", "localc", "xdg-open", "open", "less", "more", "git", "unzip", "zip", "file", "tput", "notify-send", "curl", "wget", "gpg",
                  "pdftotext", "sensible-browser", "gnome-open", "xclip", "pbcopy", "sendmail", "lsb_release", "hostname",
                  "www-browser", "x-www-browser", "links", "elinks", "lynx", "w3m", "firefox", "chromium", "gvfs-open", "kde-open", "my-browser",
                  "nano", "vi", "editor", "pager", "say", "paplay", "aplay", "espeak"]
ENTRY = {c: "rp2.plugin.country.%s" % c for c in ("us", "jp", "es", "ie", "generic")}


class HarnessError(Exception):
    pass


RUN_DIGESTS = []  # digests of the runs executed by this (worker) process since it was last cleared
RUN_CLOCKS = []  # (clock reads, jumps fired, simulated seconds covered) of the same runs


def scratch_base():
    base = os.environ.get("RP2SIM_SCRATCH")
    if not base:
        base = "/dev/shm" if os.path.isdir("/dev/shm") and os.access("/dev/shm", os.W_OK) else (os.environ.get("TMPDIR") or "/tmp")
    session = os.environ.get("RP2SIM_SESSION")
    if not session:
        session = "s%d" % os.getpid()
        os.environ["RP2SIM_SESSION"] = session  # inherited by workers and replay subprocesses of this invocation
    d = os.path.join(base, "rp2sim-%d" % os.getuid(), session)
    os.makedirs(d, exist_ok=True)
    return d


def cleanup_session():
    """Remove whatever this invocation left on the scratch file system."""
    if os.environ.get("RP2SIM_SESSION") == "s%d" % os.getpid():
        shutil.rmtree(scratch_base(), ignore_errors=True)


def ensure_shim():
    """(Re)build the LD_PRELOAD clock shim when missing or older than its source."""
    try:
        if os.path.exists(SHIM_SO) and os.path.getmtime(SHIM_SO) >= os.path.getmtime(SHIM_SRC):
            return SHIM_SO
    except OSError:
        pass
    os.makedirs(os.path.dirname(SHIM_SO), exist_ok=True)
    tmp = SHIM_SO + ".%d.tmp" % os.getpid()
    cc = shutil.which("cc") or shutil.which("gcc") or shutil.which("clang")
    if not cc:
        raise HarnessError("no C compiler for the clock shim")
    proc = subprocess.run([cc, "-O2", "-shared", "-fPIC", "-o", tmp, SHIM_SRC, "-ldl"], capture_output=True, text=True, check=False)
    if proc.returncode != 0:
        raise HarnessError("clock shim build failed: " + proc.stderr)
    os.replace(tmp, SHIM_SO)
    return SHIM_SO


_SETARCH = None


def setarch_cmd():
    global _SETARCH  # pylint: disable=global-statement
    if _SETARCH is None:
        exe = shutil.which("setarch")
        ok = False
        if exe:
            try:
                ok = subprocess.run([exe, "x86_64", "-R", "/bin/true"], capture_output=True, check=False, timeout=10).returncode == 0
            except Exception:  # pylint: disable=broad-except
                ok = False
        _SETARCH = [exe, "x86_64", "-R"] if ok else []
    return _SETARCH


def sha256_file(path):
    h = hashlib.sha256()
    with open(path, "rb") as fh:
        for chunk in iter(lambda: fh.read(1 << 16), b""):
            h.update(chunk)
    return h.hexdigest()


def snapshot(root):
    """{relative path: [kind, size, sha256, mode, mtime_ns]} of everything under root."""
    snap = {}
    for dirpath, dirnames, filenames in os.walk(root):
        dirnames.sort()
        rel = os.path.relpath(dirpath, root)
        for d in dirnames:
            p = os.path.join(dirpath, d)
            st = os.lstat(p)
            snap[os.path.normpath(os.path.join(rel, d))] = ["d" if not os.path.islink(p) else "l", 0, "", st.st_mode & 0o7777, 0]
        for f in sorted(filenames):
            p = os.path.join(dirpath, f)
            st = os.lstat(p)
            if os.path.islink(p):
                snap[os.path.normpath(os.path.join(rel, f))] = ["l", 0, os.readlink(p), st.st_mode & 0o7777, 0]
            else:
                snap[os.path.normpath(os.path.join(rel, f))] = ["f", st.st_size, sha256_file(p), st.st_mode & 0o7777, st.st_mtime_ns]
    return snap


def inspect_report(path, keep=False):
    """What an ODS report contains: zip ok?, hashes of the clock-free parts, parse check."""
    info = {"size": os.path.getsize(path)}
    try:
        with zipfile.ZipFile(path) as z:
            names = z.namelist()
            info["entries"] = sorted(names)
            bad = z.testzip()
            info["zip_ok"] = bad is None
            content = z.read("content.xml") if "content.xml" in names else None
            styles = z.read("styles.xml") if "styles.xml" in names else None
            mimetype = z.read("mimetype") if "mimetype" in names else b""
    except Exception as exc:  # pylint: disable=broad-except
        info["zip_ok"] = False
        info["error"] = "%s: %s" % (type(exc).__name__, exc)
        return info
    info["mimetype"] = mimetype.decode("latin-1")
    info["content_sha"] = hashlib.sha256(content).hexdigest() if content is not None else None
    info["styles_sha"] = hashlib.sha256(styles).hexdigest() if styles is not None else None
    info["content_ok"] = False
    if content is not None:
        try:
            from xml.etree import ElementTree as ET  # pylint: disable=import-outside-toplevel

            root = ET.fromstring(content)
            info["content_ok"] = True
            info["n_sheets"] = sum(1 for _ in root.iter("{urn:oasis:names:tc:opendocument:xmlns:table:1.0}table"))
        except Exception as exc:  # pylint: disable=broad-except
            info["error"] = "content.xml: %s" % exc
    if keep:
        info["content"] = content
        info["styles"] = styles
    return info


class World:
    """A directory tree on tmpfs that simulated runs execute in (durable state of a history)."""

    def __init__(self, tag, cwd_shape=None):
        self.root = os.path.join(scratch_base(), "%s-%d-%s" % (tag, os.getpid(), hashlib.sha1(os.urandom(8)).hexdigest()[:8]))
        self.world = os.path.join(self.root, "world")
        # the cwd of the runs; "under_log" / "under_output": a working directory one of whose ancestors is itself called log / output
        self.work = os.path.join(self.world, {"under_log": "log/taxes 2023", "under_output": "output/work"}.get(cwd_shape, "work"))
        self.home = os.path.join(self.world, "home")
        self.tmp = os.path.join(self.world, "tmp")
        for d in (self.work, self.home, self.tmp):
            os.makedirs(d)
        self.bin = os.path.join(self.world, "bin")
        os.makedirs(self.bin)
        self.nruns = 0
        self.put_paths = set()  # files laid out by the harness (inputs, configs): never mistaken for reports when -o is their directory

    def install_helpers(self, names):
        """Executables a program might look for (shutil.which) before using them: present on the simulated host's PATH, so that the
        'only when the tool is installed' paths run. They do nothing; starting one is refused and recorded by the stub anyway."""
        for n in names:
            p = os.path.join(self.bin, n)
            if not os.path.exists(p):
                with open(p, "w", encoding="utf-8") as fh:
                    fh.write("#!/bin/sh\nexit 0\n")
                os.chmod(p, 0o755)

    def put(self, rel, data, mode=None, mtime=None):
        path = os.path.join(self.work, rel)
        os.makedirs(os.path.dirname(path), exist_ok=True)
        with open(path, "wb") as fh:
            fh.write(data if isinstance(data, bytes) else data.encode("utf-8"))
        stamp = (mtime if mtime is not None else 1_600_000_000) * 10**9
        os.utime(path, ns=(stamp, stamp))
        if mode is not None:
            os.chmod(path, mode)
        self.put_paths.add(os.path.realpath(path))
        return path

    def cleanup(self):
        for dirpath, dirnames, _ in os.walk(self.root):
            for d in dirnames:
                try:
                    os.chmod(os.path.join(dirpath, d), 0o700)
                except OSError:
                    pass
        shutil.rmtree(self.root, ignore_errors=True)


def _drain_pty(master, proc, sink):
    """Copy what the child writes to its terminal into sink until the child has exited and the terminal is empty."""
    import select  # pylint: disable=import-outside-toplevel

    try:
        while True:
            r, _, _ = select.select([master], [], [], 0.05)
            if r:
                try:
                    data = os.read(master, 65536)
                except OSError:
                    break
                if not data:
                    break
                sink.write(data.replace(b"\r\n", b"\n"))
            elif proc.poll() is not None:
                break
    finally:
        sink.flush()


def build_argv(opts, config_arg, input_arg):
    argv = []
    if opts.get("method"):
        argv += ["-m", opts["method"]]
    if opts.get("lang"):
        argv += ["-g", opts["lang"]]
    if opts.get("from") is not None:
        argv += ["-f", opts["from"]]  # an empty string is passed as an (invalid) empty value, not dropped
    if opts.get("to") is not None:
        argv += ["-t", opts["to"]]
    if opts.get("neg"):
        argv += ["-n"]
    if opts.get("asset"):
        argv += ["-a", opts["asset"]]
    if opts.get("prefix"):
        argv += ["-p", opts["prefix"]]
    if opts.get("outdir") is not None:
        argv += ["-o", opts["outdir"]]
    argv += list(opts.get("extra_argv", []))
    if opts.get("raw_argv") is not None:
        return list(opts["raw_argv"])
    if config_arg is not None:
        argv.append(config_arg)
    if input_arg is not None:
        argv.append(input_arg)
    return argv


def host_env(host, opts, w):
    env = {
        "PATH": w.bin + ":/usr/bin:/bin",
        "HOME": w.home,
        "TMPDIR": w.tmp,
        "PYTHONPATH": host.get("src") or DEFAULT_SRC,
        "PYTHONHASHSEED": str(host.get("hashseed", 0)),
        "PYTHONDONTWRITEBYTECODE": "1",
        "LD_PRELOAD": ensure_shim(),
        "RP2SIM_EPOCH_NS": str(host.get("epoch_ns", 1_700_000_000 * 10**9)),
        "RP2SIM_TICK_NS": str(host.get("tick_ns", 1_000_000)),
    }
    if host.get("jumps"):
        env["RP2SIM_JUMPS"] = ",".join("%d:%d" % (k, d) for k, d in host["jumps"])
    for k in ("TZ", "LANG", "LC_ALL", "LANGUAGE", "LOG_LEVEL"):
        if host.get(k) is not None:
            env[k] = host[k]
    if host.get("profiler"):
        env["RP2_ENABLE_PROFILER"] = "1"
    if host.get("user"):
        env["USER"] = env["LOGNAME"] = env["USERNAME"] = host["user"]
    if host.get("hostname"):
        env["HOSTNAME"] = host["hostname"]
    if host.get("desktop"):
        # a desktop session: what makes the standard library (webbrowser, pydoc, getpass ...) and many helpers reach for GUI or console tools
        env.update({"DISPLAY": ":0", "XDG_CURRENT_DESKTOP": "GNOME", "XDG_SESSION_TYPE": "x11", "BROWSER": os.path.join(w.bin, "my-browser") + " %s",
                    "PAGER": "less", "EDITOR": "nano", "TERM": "xterm-256color"})
    if host.get("columns"):
        env["COLUMNS"] = host["columns"]
        env["LINES"] = "24"
        env["TERM"] = "xterm-256color"
    for k, v in (host.get("extra_env") or {}).items():
        env[k] = v.replace("$HOME", w.home).replace("$TMP", w.tmp).replace("$CWD", w.work)
    for k, v in (opts.get("env") or {}).items():
        env[k] = v
    return env


def run(w, world_files, opts, host=None, faults=None, crash_at=None, interrupt_at=None, dump=False, record_imports=False,
        keep_content=False, walk_packages=False, src=None, strace=False):
    """Execute one simulated run inside World w.

    world_files: {"config": relpath-in-cwd, "input": relpath-in-cwd} (already written with w.put)
    opts: command-line options (see build_argv) + country
    Returns a result dict.
    """
    host = dict(host or {})
    opts = dict(opts)
    if opts.get("outdir") == "ABS":
        opts["outdir"] = os.path.join(w.world, "abs out")
    elif opts.get("outdir") == "INPUTDIR":
        opts["outdir"] = (opts.get("files_in") or "./").rstrip("/") or "."
    if src:
        host["src"] = src
    src_root = host.get("src") or DEFAULT_SRC
    w.install_helpers(COMMON_HELPERS + list(host.get("helper_programs") or []))
    w.nruns += 1
    rundir = os.path.join(w.root, "run%d" % w.nruns)
    os.makedirs(rundir)
    cwd = w.work
    cfg_rel, in_rel = world_files.get("config"), world_files.get("input")
    style = opts.get("path_style", "rel")

    def arg_path(rel):
        if rel is None:
            return None
        return os.path.join(cwd, rel) if style == "abs" else (("./" + rel) if style == "dot" else rel)

    outdir = opts.get("outdir")
    out_abs = os.path.normpath(os.path.join(cwd, outdir if outdir is not None else "output/"))
    argv = build_argv(opts, arg_path(cfg_rel), arg_path(in_rel))
    layout = {
        "world": os.path.realpath(w.world),
        "config": os.path.realpath(os.path.join(cwd, cfg_rel)) if cfg_rel else None,
        "input": os.path.realpath(os.path.join(cwd, in_rel)) if in_rel else None,
        "output_dir": os.path.realpath(out_abs),
        "log_dir": os.path.realpath(os.path.join(cwd, "log")),
        "template_dir": os.path.realpath(os.path.join(src_root, "rp2", "plugin", "report", "data")),
        "home": os.path.realpath(w.home),
        "tmpdir": os.path.realpath(w.tmp),
        "src": os.path.realpath(src_root),
        "python_roots": sorted({os.path.realpath(p) for p in (sys.prefix, sys.base_prefix, sys.exec_prefix) if p}),
    }
    spec = {
        "entry_module": ENTRY.get(opts.get("country", "us"), opts.get("entry_module")),
        "prog": "rp2_%s" % opts.get("country", "us"),
        "argv": argv,
        "random_seed": host.get("random_seed", 0),
        "sched_seed": host.get("sched_seed", 0),
        "layout": layout,
        "faults": faults or [],
        "crash_at": crash_at,
        "interrupt_at": interrupt_at,
        "dump": dump,
        "record_imports": record_imports,
        "walk_packages": walk_packages,
        "result_path": os.path.join(rundir, "result.json"),
    }
    spec_path = os.path.join(rundir, "spec.json")
    with open(spec_path, "w", encoding="utf-8") as fh:
        json.dump(spec, fh)
    env = host_env(host, opts, w)
    cmd = []
    if not host.get("aslr", False):
        cmd += setarch_cmd()
    strace_out = None
    if strace and sysmon.available():
        strace_out = os.path.join(rundir, "strace.out")
        cmd += sysmon.prefix(strace_out)
    cmd += [PYTHON, "-P", CHILD, spec_path]
    before = snapshot(w.world)
    t0 = time.monotonic()
    timed_out = False
    master = slave = None
    if host.get("tty"):
        # an interactive terminal on stdin and stdout (isatty() is true): pagers, prompts, colours and progress bars live behind that test
        import pty  # pylint: disable=import-outside-toplevel

        master, slave = pty.openpty()
        env.setdefault("TERM", "xterm-256color")
    with open(os.path.join(rundir, "stdout"), "wb") as so, open(os.path.join(rundir, "stderr"), "wb") as se:
        proc = subprocess.Popen(cmd, cwd=cwd, env=env, stdin=slave if slave is not None else subprocess.DEVNULL, stdout=slave if slave is not None else so, stderr=se,
                                start_new_session=True, umask=host["umask"] if host.get("umask") is not None else -1)  # pylint: disable=consider-using-with
        if slave is not None:
            os.close(slave)
            _drain_pty(master, proc, so)
        # the wall budget of a run grows with the size of its input (about 50 bytes of ODS per row; a 3 000-row world takes 10-15 s on
        # an idle core, several times that under strace on a loaded machine): 60 s for ordinary worlds, up to 10 minutes for huge ones
        budget = RUN_TIMEOUT
        try:
            if in_rel:
                budget = RUN_TIMEOUT * max(1.0, min(10.0, os.path.getsize(os.path.join(cwd, in_rel)) / 15000.0))
        except OSError:
            pass
        try:
            rc = proc.wait(timeout=budget)
        except subprocess.TimeoutExpired:
            timed_out = True
            try:
                os.killpg(proc.pid, signal.SIGKILL)
            except OSError:
                pass
            rc = proc.wait()
    if master is not None:
        try:
            os.close(master)
        except OSError:
            pass
    wall = time.monotonic() - t0
    after = snapshot(w.world)
    with open(os.path.join(rundir, "stdout"), "rb") as fh:
        stdout = fh.read().decode("utf-8", "replace")
    with open(os.path.join(rundir, "stderr"), "rb") as fh:
        stderr = fh.read().decode("utf-8", "replace")
    res = {"rc": rc, "timed_out": timed_out, "budget_s": budget, "aslr": bool(host.get("aslr", False)), "wall": wall, "stdout": stdout, "stderr": stderr, "argv": argv, "layout": layout,
           "before": before, "after": after, "child": None, "cmd_env": {k: v for k, v in env.items() if k not in ("LD_PRELOAD", "PATH")}}
    rp = spec["result_path"]
    if os.path.exists(rp):
        with open(rp, encoding="utf-8") as fh:
            res["child"] = json.load(fh)
    if strace_out is not None:
        calls = sysmon.parse(strace_out)
        vanished = [f["path"] for f in ((res["child"] or {}).get("faults") or []) if f.get("fault") == "vanish"]
        sv, sn = sysmon.analyse(calls, layout, cwd, rundir, vanished)
        res["sys"] = {"violations": sv, "counters": sn}
    elif strace:
        res["sys"] = {"unavailable": True}
    if "RP2SIM-CHILD-HARNESS-ERROR" in stderr or (res["child"] is None and not timed_out):
        raise HarnessError("child harness failure rc=%s stderr=%s" % (rc, stderr[-2000:]))
    # logs written by this run
    logs = {}
    log_root = os.path.join(w.work, "log")
    for rel, meta in after.items():
        if meta[0] == "f" and rel.startswith(os.path.relpath(os.path.join(w.work, "log"), w.world) + os.sep) and before.get(rel) != meta:
            try:
                with open(os.path.join(w.world, rel), encoding="utf-8", errors="replace") as fh:
                    logs[os.path.basename(rel)] = fh.read()
            except OSError:
                pass
    res["logs"] = logs
    del log_root
    # reports present in the output directory after the run
    reports = {}
    out_real = layout["output_dir"]
    if os.path.isdir(out_real):
        for name in sorted(os.listdir(out_real)):
            p = os.path.join(out_real, name)
            if os.path.isfile(p) and name.endswith(".ods") and os.path.realpath(p) not in w.put_paths:
                reports[name] = inspect_report(p, keep=keep_content)
    res["reports"] = reports
    res["digest"] = digest(res, w)
    RUN_DIGESTS.append(res["digest"])
    ck = (res.get("child") or {}).get("clock") or {}
    reads = ck.get("reads", 0)
    span = reads * host.get("tick_ns", 1_000_000)
    for at, d in host.get("jumps") or []:
        if at <= reads:
            span += abs(d)
    RUN_CLOCKS.append((reads, ck.get("jumps", 0), span / 1e9))
    shutil.rmtree(rundir, ignore_errors=True)
    return res


def digest(res, w):
    """sha256 over everything recorded about a run, with the scratch root replaced by $R (the only
    normalisation): exit status, stdout/stderr, event log, fault log, clock statistics, dumps, the
    complete after-listing of the world (whole-file hashes: reports are compared bit for bit,
    meta.xml and zip entry times included; log files are hashed after the same $R replacement)."""
    root = w.root

    def norm(obj):
        if isinstance(obj, str):
            return obj.replace(root, "$R")
        if isinstance(obj, dict):
            return {k: norm(v) for k, v in obj.items()}
        if isinstance(obj, (list, tuple)):
            return [norm(v) for v in obj]
        return obj

    # Heap object addresses are not owned by the simulator: even under setarch -R they vary between identical runs (allocator state of
    # the C libraries), so the "<... object at 0x...>" texts of DEBUG logs are normalised; everything else is compared bit for bit.
    aslr_on = True
    addr = re.compile(rb"0x[0-9a-f]{6,16}")
    keep_mtime = {os.path.relpath(p, res["layout"]["world"]) for p in (res["layout"].get("config"), res["layout"].get("input")) if p}
    after = {}
    for rel, meta in res["after"].items():
        m = list(meta)
        if m[0] == "f" and rel.startswith(os.path.relpath(os.path.join(w.work, "log"), w.world) + os.sep):
            try:
                with open(os.path.join(w.world, rel), "rb") as fh:
                    data = fh.read().replace(root.encode(), b"$R")
                    if aslr_on:
                        data = addr.sub(b"0xADDR", data)  # real ASLR was requested for this run: object addresses in DEBUG logs are not owned by the simulator
                    m[2] = hashlib.sha256(data).hexdigest()
                    m[1] = -1
            except OSError:
                pass
        if rel not in keep_mtime:
            m[4] = 0  # mtimes are assigned by the kernel from the real clock (tmpfs), which the simulator does not own
        after[rel] = m
    child = res.get("child") or {}
    def text(t):
        t = norm(t)
        return addr.sub(b"0xADDR", t.encode()).decode() if aslr_on else t

    doc = {"rc": res["rc"], "timed_out": res["timed_out"], "stdout": text(res["stdout"]), "stderr": text(res["stderr"]), "argv": norm(res["argv"]),
           "events": norm(child.get("events")), "faults": norm(child.get("faults")), "clock": child.get("clock"), "dumps": child.get("dumps"),
           "io_steps": child.get("io_steps"), "crashed": child.get("crashed"), "imports": child.get("imports"), "after": after,
           "quiet_reads": child.get("quiet_reads"), "sched_steps": child.get("sched_steps"), "sys": (res.get("sys") or {}).get("violations")}
    h = hashlib.sha256(json.dumps(doc, sort_keys=True, default=str).encode()).hexdigest()
    dump_dir = os.environ.get("RP2SIM_DIGEST_DUMP")
    if dump_dir:
        os.makedirs(dump_dir, exist_ok=True)
        with open(os.path.join(dump_dir, h + ".json"), "w", encoding="utf-8") as fh:
            json.dump(doc, fh, sort_keys=True, default=str, indent=0)
    return h


def rel_in_world(res, path):
    wroot = res["layout"]["world"]
    return os.path.relpath(path, wroot)
