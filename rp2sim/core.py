"""Shared pieces of the four checks: laying a case out on the simulated disk, and reading the
recorded run (failure site, error reporting, file-system trace, confinement monitors)."""
import os
import re

from . import runner
from . import world as W

REPORT_NAMES = {"open_positions": "open_positions", "rp2_full_report": "rp2_full_report"}


def generator_short(gen):
    return gen.rsplit(".", 1)[-1]


def expected_method_token(opts, world):
    if world.get("methods"):
        return "mixed" if len(world["methods"]) != 1 else world["methods"][0][1]
    return opts.get("method") or "fifo"


def layout_case(tag, world, opts, prestate=None, input_bytes=None, config_text=None, readonly_inputs=False, bystanders=False):
    """Create the world directory of a case and write config + spreadsheet (+ pre-state)."""
    w = runner.World(tag, opts.get("cwd_shape"))
    cfg_text, ods = W.materialize(world) if (input_bytes is None or config_text is None) else (None, None)
    cfg_text = config_text if config_text is not None else cfg_text
    ods = input_bytes if input_bytes is not None else ods
    sub = opts.get("files_in", "")
    names = opts.get("file_names") or ["w0.ini", "w0.ods"]
    files = {"config": sub + names[0], "input": sub + names[1]}
    w.put(files["config"], cfg_text, 0o444 if readonly_inputs else None, mtime=opts.get("input_mtime"))
    w.put(files["input"], ods, 0o444 if readonly_inputs else None, mtime=opts.get("input_mtime"))
    fix_outdir(w, opts)
    apply_prestate(w, opts, world, prestate or [])
    if bystanders:
        add_bystanders(w, opts)
        add_lock_files(w, files)
    return w, files


def add_bystanders(w, opts):
    """Files of other people and other programs all over the simulated world - next to the output directory, in the cwd, beside the
    inputs, in the home and temp directories - that no run may touch: the whole-world listing shows if one disappears or changes."""
    spots = [w.work, os.path.dirname(out_abs(w, opts)), os.path.join(w.work, os.path.dirname(opts.get("files_in", "") or "x/")[:0] or opts.get("files_in", "") or ""), w.home, w.tmp]
    names = ["scratch.tmp", "wallet-export.tmp", "keep.ods", "old report.ods.bak", ".rp2rc", "notes.log", "lock.pid"]
    for k, d in enumerate(dict.fromkeys(os.path.normpath(x) for x in spots)):
        if not d.startswith(os.path.normpath(w.world)):
            continue
        try:
            os.makedirs(d, exist_ok=True)
            for j, n in enumerate(names):
                p = os.path.join(d, n)
                if not os.path.lexists(p) and (k + j) % 2 == 0:
                    with open(p, "wb") as fh:
                        fh.write(b"bystander %d %d\n" % (k, j))
        except OSError:
            pass


def add_lock_files(w, files):
    """What an office program leaves next to a spreadsheet that is (or was, before a crash) open in it: '.~lock.<name>#' - one stale
    (as old as a file can be), one fresh for the config."""
    for key, old in (("input", True), ("config", False)):
        rel = files.get(key)
        if not rel:
            continue
        p = os.path.join(w.work, os.path.dirname(rel), ".~lock.%s#" % os.path.basename(rel))
        try:
            with open(p, "w", encoding="utf-8") as fh:
                fh.write(",user,host,01.01.2020 10:00,file:///home/user/.config/libreoffice/4;")
            if old:
                os.utime(p, ns=(10**9, 10**9))
        except OSError:
            pass


def fix_outdir(w, opts):
    """Kept for call-site compatibility: the symbolic output directory "ABS" (an absolute path inside the world of the run) is
    resolved per run by runner.run / out_abs and never written back into the option tuple."""
    del w, opts


def out_abs(w, opts):
    o = opts.get("outdir")
    if o == "ABS":
        return os.path.join(w.world, "abs out")
    if o == "INPUTDIR":
        o = (opts.get("files_in") or "./").rstrip("/") or "."
    return os.path.normpath(os.path.join(w.work, o if o is not None else "output/"))


def apply_prestate(w, opts, world, items):
    out = out_abs(w, opts)
    token = expected_method_token(opts, world)
    prefix = opts.get("prefix") or ""
    country = opts.get("country", "us")
    reports = ["rp2_full_report", "open_positions"] + (["tax_report_%s" % country] if country in ("us", "jp", "ie") else ["rp2_full_report"])
    for i, k in enumerate(items):
        if k in ("symlink_stale", "dangling_symlink_stale"):
            # a report name that is a symbolic link to a file outside the output directory ("latest" links left by an archiving user)
            os.makedirs(out, exist_ok=True)
            archive = os.path.join(w.work, "archive")
            os.makedirs(archive, exist_ok=True)
            name = "%s%s_%s.ods" % (prefix, token, reports[i % 3])
            target = os.path.join(archive, ("old_" if k == "symlink_stale" else "missing_") + name)
            if k == "symlink_stale":
                with open(target, "wb") as fh:
                    fh.write(b"PK\x03\x04 archived report %d" % i)
                if i % 2 == 0:
                    os.chmod(target, 0o444)  # filed away read-only: neither its bytes nor its mode are RP2's to change
            link = os.path.join(out, name)
            if not os.path.lexists(link):
                os.symlink(os.path.relpath(target, out), link)
        elif k == "hardlink_stale":
            # a report name that is a second hard link of a file kept outside the output directory (an archived copy made with ln)
            os.makedirs(out, exist_ok=True)
            archive = os.path.join(w.work, "archive")
            os.makedirs(archive, exist_ok=True)
            name = "%s%s_%s.ods" % (prefix, token, reports[i % 3])
            target = os.path.join(archive, "kept_" + name)
            link = os.path.join(out, name)
            if not os.path.lexists(link) and not os.path.lexists(target):
                with open(target, "wb") as fh:
                    fh.write(b"PK\x03\x04 archived report (hard link) %d" % i)
                if i % 2 == 1:
                    os.chmod(target, 0o444)
                os.link(target, link)
        elif k in ("stale_report", "readonly_stale", "bak"):
            os.makedirs(out, exist_ok=True)
            name = "%s%s_%s.ods" % (prefix, token, reports[i % 3])
            if k == "bak":
                name += ".bak"
            p = os.path.join(out, name)
            if os.path.lexists(p):
                continue
            with open(p, "wb") as fh:
                fh.write(b"PK\x03\x04 stale report %d" % i)
            if k == "readonly_stale":
                os.chmod(p, 0o444)
        elif k == "unrelated":
            os.makedirs(out, exist_ok=True)
            with open(os.path.join(out, "notes %d.txt" % i), "w", encoding="utf-8") as fh:
                fh.write("keep me\n")
        elif k == "tmp_like":
            os.makedirs(out, exist_ok=True)
            with open(os.path.join(out, "AbCdEf%02d.tmp" % i), "wb") as fh:
                fh.write(b"torn")
        elif k == "subdir":
            os.makedirs(os.path.join(out, "archive"), exist_ok=True)
            with open(os.path.join(out, "archive", "old.ods"), "wb") as fh:
                fh.write(b"old")
        elif k == "many_old_logs":
            os.makedirs(os.path.join(w.work, "log"), exist_ok=True)
            for j in range(9):
                with open(os.path.join(w.work, "log", "rp2_2019_0%d_01_00_00_00_%06d.log" % (j + 1, i)), "w", encoding="utf-8") as fh:
                    fh.write("old log %d\n" % j)
        elif k == "old_log":
            os.makedirs(os.path.join(w.work, "log"), exist_ok=True)
            with open(os.path.join(w.work, "log", "rp2_2020_01_01_00_00_00_%06d.log" % i), "w", encoding="utf-8") as fh:
                fh.write("old log\n")


# ------------------------------------------------------------------ reading a recorded run

_FRAME = re.compile(r'File "([^"]*?/rp2/([^"]+))", line (\d+), in (\S+)')
_EXC = re.compile(r"^([A-Za-z_][\w.]*(?:Error|Exception|Exit|Interrupt|Warning)?)(?::\s(.*))?$")


def all_text(res):
    return res["stderr"] + "\n" + "\n".join(res["logs"].values())


def failure_site(res):
    """(exception type, innermost rp2 frame 'file:function', message head) from the traceback in
    stderr / the run's log, or a normalised last error line when there is no traceback."""
    text = all_text(res)
    idx = text.rfind("Traceback (most recent call last)")
    if idx >= 0:
        tb = text[idx:]
        frames = _FRAME.findall(tb)
        exc_type, msg = "?", ""
        lines = [ln for ln in tb.splitlines()]
        for ln in lines[1:]:
            if ln and not ln.startswith((" ", "\t")):
                m = _EXC.match(ln.strip())
                if m and ("Error" in m.group(1) or "Exception" in m.group(1) or "." in m.group(1) or m.group(1) in ("KeyError", "SystemExit", "StopIteration", "KeyboardInterrupt")):
                    exc_type, msg = m.group(1), (m.group(2) or "")
        site = "%s:%s" % (frames[-1][1], frames[-1][3]) if frames else "?"
        return exc_type.rsplit(".", 1)[-1], site, msg[:160]
    errs = [ln for ln in text.splitlines() if ln.startswith(("ERROR", "CRITICAL")) or "/ERROR:" in ln or "/CRITICAL:" in ln or "error:" in ln]
    if errs:
        line = errs[-1]
        line = re.sub(r"/[^\s'\"]+", "<path>", line)
        line = re.sub(r"\d+", "N", line)
        return "logged-error", "-", line[:160]
    out = res["stdout"].strip().splitlines()
    if out:
        line = re.sub(r"/[^\s'\"]+", "<path>", out[0])
        return "stdout-message", "-", re.sub(r"\d+", "N", line)[:160]
    return "silent", "-", ""


def error_reported(res):
    """True when the run told the user that something went wrong: an ERROR/CRITICAL record or a
    traceback on stderr or in the run's log, an argparse 'error:' line, or a non-INFO message on
    stdout (the path checks of _setup_paths print there). No wording is asserted."""
    text = all_text(res)
    if "Traceback (most recent call last)" in text:
        return True
    for ln in text.splitlines():
        s = ln.strip()
        if s.startswith(("ERROR", "CRITICAL")) or "/ERROR:" in s or "/CRITICAL:" in s or ": error:" in s or s.startswith("usage:"):
            return True
    for ln in res["stdout"].splitlines():
        s = ln.strip()
        if s and not s.startswith(("INFO", "DEBUG", "usage:")):
            return True
    return False


def events(res):
    return (res.get("child") or {}).get("events") or []


def fs_trace(res):
    """Sequence of (operation, path class) of the world-visible file-system trace."""
    tr = []
    for e in events(res):
        if e["ev"] == "open":
            if e["cls"] in ("template",):
                item = ("r", "template")
            else:
                item = ("w" if e["w"] else "r", e["cls"])
        elif e["ev"].startswith("os.") and "targets" in e:
            item = (e["ev"][3:],) + tuple(t["cls"] for t in e["targets"])
        elif e["ev"] in ("net", "proc"):
            item = (e["ev"], e["name"])
        elif e["ev"] == "sim.crash":
            item = ("crash",)
        else:
            continue
        if not tr or tr[-1] != item:
            tr.append(item)
    return tr


def output_writes(res):
    """Events that create/modify/delete something under the output directory (excluding the
    creation of the directory itself and of its ancestors)."""
    out = []
    for e in events(res):
        if e["ev"] == "open" and e["w"] and e["cls"] in ("output", "output_tmp"):
            out.append(e)
        elif e["ev"].startswith("os.") and "targets" in e:
            cl = [t["cls"] for t in e["targets"]]
            if e["ev"] == "os.mkdir" and cl[0] in ("output_dir", "output_ancestor"):
                continue
            if any(c in ("output", "output_tmp", "output_dir") for c in cl):
                out.append(e)
    return out


def snapshot_diff(res, under=None):
    """Paths (relative to the world) created / modified / deleted by the run."""
    before, after = res["before"], res["after"]
    changed = {}
    for p in set(before) | set(after):
        if under is not None and not (p == under or p.startswith(under + os.sep)):
            continue
        if before.get(p) != after.get(p):
            changed[p] = "created" if p not in before else ("deleted" if p not in after else "modified")
    return changed


def rel_world(res, abspath):
    return os.path.relpath(abspath, res["layout"]["world"])


def normalise_text(text, res):
    return text.replace(res["layout"]["world"], "$W")


def host_perturbations(host):
    """Which benign host perturbations a host carries relative to the baseline host."""
    from .gen import BASE_HOST  # pylint: disable=import-outside-toplevel

    kinds = []
    if host.get("epoch_ns") != BASE_HOST["epoch_ns"] or host.get("tick_ns") != BASE_HOST["tick_ns"]:
        kinds.append("clock")
    if host.get("jumps"):
        kinds.append("clock_jump")
    if host.get("TZ") not in (None, "UTC"):
        kinds.append("tz")
    if host.get("LANG") != BASE_HOST["LANG"] or host.get("LC_ALL") or host.get("LANGUAGE"):
        kinds.append("locale")
    if host.get("LOG_LEVEL"):
        kinds.append("log_level")
    if host.get("profiler"):
        kinds.append("profiler")
    if host.get("hashseed"):
        kinds.append("hashseed")
    if host.get("aslr"):
        kinds.append("aslr")
    if host.get("sched_seed"):
        kinds.append("schedule")
    if host.get("tty"):
        kinds.append("tty")
    if host.get("desktop"):
        kinds.append("desktop_session")
    if host.get("extra_env"):
        kinds.append("discovered_env")
    if host.get("user") or host.get("hostname") or host.get("columns") or host.get("umask") is not None:
        kinds.append("identity")
    return kinds


def edit_reports(out_dir, seed, share=0.35, exclude=()):
    """What a user does to reports between two runs: open them in a spreadsheet program and type numbers into cells. Every ODS file in
    out_dir is re-packed with a share of its text cells turned into numeric cells. Returns the number of cells changed."""
    import io  # pylint: disable=import-outside-toplevel
    import random  # pylint: disable=import-outside-toplevel
    import zipfile  # pylint: disable=import-outside-toplevel

    rng = random.Random(seed)
    cell = re.compile(r'office:value-type="string"([^>]*)><text:p>([^<]{1,60})</text:p>')
    changed = 0
    if not os.path.isdir(out_dir):
        return 0
    for name in sorted(os.listdir(out_dir)):
        path = os.path.join(out_dir, name)
        if not name.endswith(".ods") or os.path.islink(path) or not os.path.isfile(path) or os.path.realpath(path) in exclude:
            continue  # never the input spreadsheets laid out by the harness (-o may be their directory)
        try:
            with zipfile.ZipFile(path) as zin:
                items = [(i, zin.read(i.filename)) for i in zin.infolist()]
        except (zipfile.BadZipFile, OSError):
            continue
        n = [0]

        def sub(m):
            if rng.random() >= share:
                return m.group(0)
            n[0] += 1
            v = rng.choice(["43210.5", "7", "0.125", "1999.99"])
            return 'office:value-type="float" office:value="%s"%s><text:p>%s</text:p>' % (v, m.group(1), v)

        buf = io.BytesIO()
        with zipfile.ZipFile(buf, "w") as zout:
            for item, data in items:
                if item.filename == "content.xml":
                    data = cell.sub(sub, data.decode("utf-8")).encode("utf-8")
                zout.writestr(item, data)
        if n[0]:
            try:
                with open(path, "wb") as fh:
                    fh.write(buf.getvalue())
                changed += n[0]
            except OSError:
                pass
    return changed
