"""Seeded generators for everything around a world: option tuples, simulated hosts, output
directory pre-states. Every choice is drawn from the random.Random handed in (one integer
decides everything); nothing here reads a clock or the environment."""
import datetime as dt
import hashlib

from . import world as W

TZS = ["UTC", "America/New_York", "Europe/Paris", "Asia/Tokyo", "Pacific/Kiritimati", "Pacific/Pago_Pago", "Asia/Kolkata",
       "Australia/Lord_Howe", "America/St_Johns", "EST5EDT", "<+0545>-5:45", "XXX-14", "YYY+12", "Europe/London", "America/Sao_Paulo"]
LANGS = [None, "C", "C.UTF-8", "POSIX", "en_US.UTF-8", "ja_JP.UTF-8", "es_ES.UTF-8", "de_DE"]
LANGUAGES = [None, None, "es:en", "ja", "kl", "en_IE:en"]
LOG_LEVELS = [None, None, "DEBUG", "INFO", "WARNING", "ERROR", "CRITICAL"]

EPOCH_MIN = int(dt.datetime(1980, 1, 3, tzinfo=dt.timezone.utc).timestamp())
EPOCH_MAX = int(dt.datetime(2100, 12, 30, tzinfo=dt.timezone.utc).timestamp())
SPECIAL_EPOCHS = [
    dt.datetime(2024, 2, 29, 23, 59, 58), dt.datetime(2023, 12, 31, 23, 59, 59), dt.datetime(2021, 4, 15, 9, 0, 0),
    dt.datetime(1980, 1, 3, 0, 0, 0), dt.datetime(2100, 12, 29, 12, 0, 0), dt.datetime(2021, 3, 14, 6, 59, 59),
    dt.datetime(2038, 1, 19, 3, 14, 7), dt.datetime(2000, 2, 29, 12, 0, 0), dt.datetime(2021, 11, 7, 5, 59, 59),
    dt.datetime(1999, 12, 31, 23, 59, 59), dt.datetime(2016, 12, 31, 23, 59, 59),
]
BASE_HOST = {"epoch_ns": 1_700_000_000 * 10**9, "tick_ns": 1_000_000, "jumps": [], "TZ": "UTC", "LANG": "C.UTF-8", "LC_ALL": None,
             "LANGUAGE": None, "LOG_LEVEL": None, "profiler": False, "hashseed": 0, "aslr": False, "random_seed": 0,
             "user": None, "hostname": None, "columns": None, "umask": None, "sched_seed": 0, "tty": False, "extra_env": None, "helper_programs": None, "desktop": False}


def case_seed(master, prop, index):
    h = hashlib.sha256(("%d|%s|%d" % (master, prop, index)).encode()).digest()
    return int.from_bytes(h[:8], "big")


def gen_host(rng, swarm=None):
    """A benign simulated host: clock (epoch, tick, jumps), TZ, locale, log level, hash seed, ASLR."""
    swarm = swarm or {}
    h = dict(BASE_HOST)
    if swarm.get("clock", True):
        if rng.random() < 0.4:
            e = rng.choice(SPECIAL_EPOCHS).replace(tzinfo=dt.timezone.utc).timestamp()
        else:
            e = rng.randint(EPOCH_MIN, EPOCH_MAX)
        e = min(max(int(e), EPOCH_MIN), EPOCH_MAX)
        h["epoch_ns"] = e * 10**9 + rng.randint(0, 999_999) * 1000
        h["tick_ns"] = rng.choice([1000, 100_000, 1_000_000, 1_000_000, 37_000_000, 1_000_000_000])
        jumps = []
        if rng.random() < 0.5:
            for _ in range(rng.randint(1, 3)):
                at = rng.randint(1, 7000)
                delta_s = rng.choice([1, 60, 3600, 86400, 86400 * 365, 86400 * 3650]) * rng.choice([-1, 1]) * rng.randint(1, 3)
                jumps.append([at, delta_s * 10**9])
            # keep the simulated clock inside the range zip / datetime can represent, whatever fires
            lo = h["epoch_ns"] + sum(d for _, d in jumps if d < 0)
            hi = h["epoch_ns"] + sum(d for _, d in jumps if d > 0) + 8000 * h["tick_ns"]
            if lo < EPOCH_MIN * 10**9 or hi > EPOCH_MAX * 10**9:
                jumps = [[a, d] for a, d in jumps if abs(d) <= 86400 * 10**9]
                mid = (EPOCH_MIN + EPOCH_MAX) // 2
                if h["epoch_ns"] < (EPOCH_MIN + 4 * 86400) * 10**9 or h["epoch_ns"] > (EPOCH_MAX - 4 * 86400) * 10**9:
                    h["epoch_ns"] = mid * 10**9
        h["jumps"] = sorted(jumps)
    if swarm.get("env", True):
        h["TZ"] = rng.choice(TZS)
        h["LANG"] = rng.choice(LANGS)
        h["LC_ALL"] = rng.choice([None, None, None, "C", "C.UTF-8", "POSIX"])
        h["LANGUAGE"] = rng.choice(LANGUAGES)
        h["LOG_LEVEL"] = rng.choice(LOG_LEVELS)
        h["profiler"] = rng.random() < 0.08
        # who and where: user / host names, terminal geometry, umask (nothing a result may depend on)
        if rng.random() < 0.5:
            h["user"] = rng.choice(["alice", "root", "tax-bot", "Jürgen", "a b"])
            h["hostname"] = rng.choice(["laptop", "build-7.example.org", "localhost"])
            h["columns"] = rng.choice([None, "40", "80", "213"])
            h["umask"] = rng.choice([None, 0o022, 0o002, 0o077, 0o027])
        h["tty"] = rng.random() < 0.2
        h["desktop"] = rng.random() < 0.25
    if swarm.get("hash", True):
        h["hashseed"] = rng.choice([0, 1, rng.randint(2, 2**32 - 1), rng.randint(2, 2**32 - 1)])
        h["aslr"] = rng.random() < 0.3
        h["random_seed"] = rng.randint(0, 2**31)
        h["sched_seed"] = rng.randint(1, 2**31)
    return h


KNOWN_ENV = {"LOG_LEVEL", "RP2_ENABLE_PROFILER", "CURRENCY_CODE", "LONG_TERM_CAPITAL_GAINS", "HOME", "TMPDIR", "PATH", "TZ", "LANG", "LC_ALL", "LANGUAGE"}


def gen_extra_env(rng, country_facts):
    """Values for every environment variable the tree under test reads that the simulator does not already own (discovered by
    tree.env_vars): switches, levels and directories inside the simulated world."""
    env = {}
    for name in country_facts.get("env_vars", []):
        if name in KNOWN_ENV or rng.random() < 0.4:
            continue
        env[name] = rng.choice(["1", "true", "yes", "debug", "0", "$HOME/rp2 data", "$CWD/trace", "$TMP/x", "http://127.0.0.1:9/"])
    return env or None


def _dates_of(world, asset=None):
    return sorted({W.parse_ts(r["timestamp"]).date() for _, _, r in W.all_rows(world, asset)})


def gen_window(rng, world, country, kind=None):
    """from/to dates: on, before, after and between transaction dates, mid-year, empty windows."""
    dates = _dates_of(world)
    if not dates:
        return None, None
    kind = kind or rng.choice(["none", "none", "from", "to", "both", "both"])
    if country == "jp" and kind == "both":
        kind = rng.choice(["from", "to"])
    if kind == "none":
        return None, None

    out_dates = sorted({W.parse_ts(r["timestamp"]).date() for _, t, r in W.all_rows(world) if t != "IN"})

    def pick():
        d = rng.choice(dates)
        if out_dates and rng.random() < 0.3:
            return rng.choice(out_dates)  # a bound exactly on the (written) calendar date of a withdrawal
        k = rng.random()
        if k < 0.3:
            return d
        if k < 0.45:
            return d + dt.timedelta(days=rng.choice([-1, 1]))
        if k < 0.55:
            return dt.date(d.year, 1, 1)
        if k < 0.65:
            return dt.date(d.year, 12, 31)
        if k < 0.75:
            return dt.date(d.year, 6, 15)
        if k < 0.83:
            return dates[0] - dt.timedelta(days=rng.randint(1, 800))
        if k < 0.91:
            return dates[-1] + dt.timedelta(days=rng.randint(1, 800))
        return d + dt.timedelta(days=rng.randint(-200, 200))

    if kind == "from":
        return pick().isoformat(), None
    if kind == "to":
        return None, pick().isoformat()
    a, b = pick(), pick()
    if a > b:
        a, b = b, a
    return a.isoformat(), b.isoformat()


def gen_methods(rng, world, facts, allow_schedule=True):
    """-> (cli method or None, schedule or None)"""
    methods = facts["methods"]
    k = rng.random()
    if k < 0.3 or not methods:
        return None, None
    if k < 0.7 or not allow_schedule:
        return rng.choice(methods), None
    years = W.local_years(world)
    first = (years[0] if years else 2015) - rng.choice([0, 0, 1, 1, 2, 5, 40])  # may start in the very year of the first transaction
    if world.get("new_year_start") and years and rng.random() < 0.7:
        first = years[0]
    first = max(first, 1970)
    n = rng.choice([1, 1, 2, 3, 4])
    ys = [first]
    for _ in range(n - 1):
        ys.append(ys[-1] + rng.randint(1, 4))
    sched = [[y, rng.choice(methods)] for y in ys]
    if rng.random() < 0.2:
        rng.shuffle(sched)  # the section may list the years in any order
    return None, sched


def gen_options(rng, world, country, facts, swarm=None, allow_neg=False):
    swarm = swarm or {}
    opts = {"country": country}
    method, sched = gen_methods(rng, world, facts, allow_schedule=swarm.get("schedule", True))
    opts["method"] = method
    world["methods"] = sched
    langs = facts["languages"]
    opts["lang"] = rng.choice([None] + langs) if langs and rng.random() < 0.6 else None
    f, t = gen_window(rng, world, country) if swarm.get("window", True) else (None, None)
    opts["from"], opts["to"] = f, t
    # the optional generators field of [general]: a non-empty subset of the entry point's report generators
    world["generators"] = None
    if rng.random() < 0.15 and facts.get("generators"):
        gs = list(facts["generators"])
        world["generators"] = sorted(rng.sample(gs, rng.randint(1, len(gs))))
    opts["neg"] = bool(allow_neg)
    if not allow_neg and rng.random() < 0.1:
        opts["neg"] = True
    listed = [s["name"] for s in world["sheets"]]
    opts["asset"] = rng.choice(listed) if rng.random() < 0.15 else None
    opts["prefix"] = rng.choice(["", "", "", "test_", "2024-", "a b_"])
    opts["outdir"] = rng.choice(["out", "out", "out/", "nested/x/y", "ABS", None, "out.d", "INPUTDIR", "."])
    opts["path_style"] = rng.choice(["rel", "rel", "abs", "dot"])
    opts["files_in"] = rng.choice(["", "", "inputs/", "cfg dir/"])
    opts["cwd_shape"] = rng.choice([None, None, None, None, "under_log", "under_output"])
    # the config may be called anything; the spreadsheet must end in .ods
    opts["file_names"] = rng.choice([None, None, None, ["rp2.conf", "w0.ods"], ["legacy.json", "data.ods"], ["config", "in put.ods"], ["My Config.INI", "2021.final.ods"]])
    env = {}
    if country == "generic":
        env["CURRENCY_CODE"] = rng.choice(["usd", "eur", "jpy", "chf", "USD"])
        env["LONG_TERM_CAPITAL_GAINS"] = rng.choice(["365", "0", "730", "1000000000", "1"])
    opts["env"] = env
    return opts


def gen_prestate(rng, opts):
    """Benign things that may already sit in the output / log directories."""
    items = []
    if rng.random() < 0.5:
        return items
    n = rng.randint(1, 4)
    for _ in range(n):
        k = rng.choice(["stale_report", "stale_report", "unrelated", "tmp_like", "bak", "old_log", "readonly_stale", "subdir", "symlink_stale", "dangling_symlink_stale", "hardlink_stale", "many_old_logs"])
        items.append(k)
    return items
