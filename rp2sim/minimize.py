"""Delta debugging over explicit JSON case descriptions."""
import time

from . import world as W


def canonical_headers(world):
    headers = {}
    ncols = 0
    for table, (mand, opt) in W.FIELDS.items():
        fields = [f for f in mand + opt if f in world["headers"][table]]
        headers[table] = {f: i for i, f in enumerate(fields)}
        ncols = max(ncols, len(fields))
    return headers, ncols


def world_reductions(world):
    """Structurally smaller or simpler worlds. Validity is re-checked by the caller."""
    # 1. drop whole assets
    if len(world["sheets"]) > 1:
        for i, s in enumerate(world["sheets"]):
            w2 = W.clone(world)
            del w2["sheets"][i]
            w2["assets"] = [a for a in w2["assets"] if a != s["name"]]
            yield w2
    if len(world["assets"]) > len(world["sheets"]):
        w2 = W.clone(world)
        w2["assets"] = [s["name"] for s in w2["sheets"]]
        yield w2
    if world.get("extra_sheets"):
        w2 = W.clone(world)
        w2["extra_sheets"] = []
        yield w2
    # 2. drop rows: halves first, then single rows
    for si, s in enumerate(world["sheets"]):
        for ti, t in enumerate(s["tables"]):
            n = len(t["rows"])
            if n >= 4:
                for lo, hi in ((n // 2, n), (0, n // 2)):
                    w2 = W.clone(world)
                    del w2["sheets"][si]["tables"][ti]["rows"][lo:hi]
                    yield w2
    for si, s in enumerate(world["sheets"]):
        for ti, t in enumerate(s["tables"]):
            for ri in reversed(range(len(t["rows"]))):
                w2 = W.clone(world)
                del w2["sheets"][si]["tables"][ti]["rows"][ri]
                yield w2
            if not t["rows"] and t["type"] != "IN":
                w2 = W.clone(world)
                del w2["sheets"][si]["tables"][ti]
                yield w2
    # 3. canonical layout
    ch, nc = canonical_headers(world)
    if ch != world["headers"] or nc != world["ncols"]:
        w2 = W.clone(world)
        w2["headers"], w2["ncols"] = ch, nc
        yield w2
    plain = W.clone(world)
    changed = False
    for s in plain["sheets"]:
        if s.get("lead"):
            s["lead"], changed = 0, True
        order = {"IN": 0, "OUT": 1, "INTRA": 2}
        srt = sorted(s["tables"], key=lambda t: order[t["type"]])
        if srt != s["tables"]:
            s["tables"], changed = srt, True
        for t in s["tables"]:
            if t.get("gap", 1) != 1:
                t["gap"], changed = 1, True
    if plain.get("keyword_case") != "upper":
        plain["keyword_case"], changed = "upper", True
    std = ["in_header", "out_header", "intra_header", "general", "accounting_methods"]
    if plain.get("section_order") != std:
        plain["section_order"], changed = std, True
    if changed:
        yield plain
    # 4. simpler rows
    w2 = W.clone(world)
    changed = False
    for _, table, r in W.all_rows(w2):
        for f in ("notes", "fiat_in_no_fee", "fiat_in_with_fee", "crypto_out_with_fee", "fiat_out_no_fee"):
            if r.get(f) is not None:
                r[f], changed = None, True
        if table == "OUT" and r.get("fiat_fee") is not None:
            r["fiat_fee"], changed = None, True
    if changed:
        yield w2
    # 5. unused exchanges / holders
    used_e, used_h = set(), set()
    for _, table, r in W.all_rows(world):
        if table == "INTRA":
            used_e.update((r["from_exchange"], r["to_exchange"]))
            used_h.update((r["from_holder"], r["to_holder"]))
        else:
            used_e.add(r["exchange"])
            used_h.add(r["holder"])
    if used_e and (set(world["exchanges"]) - used_e or set(world["holders"]) - used_h):
        w2 = W.clone(world)
        w2["exchanges"] = [e for e in world["exchanges"] if e in used_e]
        w2["holders"] = [h for h in world["holders"] if h in used_h]
        yield w2


def vsig(prop, v):
    return "%s|%s|%s" % (prop, v["cls"], v["site"])


def minimize(case, mod, facts, target_sig, src=None, max_runs=150, max_seconds=300, log=None):
    """Greedy delta debugging: accept a candidate only if it is still a valid case of the
    property and the same violation signature persists."""
    t0 = time.monotonic()
    runs = 0
    steps = 0
    improved = True
    while improved:
        improved = False
        for cand in mod.reduce_candidates(case):
            if runs >= max_runs or time.monotonic() - t0 > max_seconds:
                return case, {"runs": runs, "accepted": steps, "budget_exhausted": True}
            try:
                if not mod.valid_case(cand):
                    continue
                runs += 1
                out = mod.exec_case(cand, facts, src=src)
            except Exception as exc:  # pylint: disable=broad-except
                if log:
                    log("minimise: candidate raised %s: %s" % (type(exc).__name__, exc))
                continue
            if any(vsig(mod.PROP, v) == target_sig for v in out["violations"]):
                case = cand
                steps += 1
                improved = True
                break
    return case, {"runs": runs, "accepted": steps, "budget_exhausted": False}
