"""Deterministic minimal ODS writer/reader used by the harness (not by the code under test).

The input spreadsheets of simulated worlds are written here rather than with ezodf so that
their bytes depend on nothing but the world description (no wall clock in zip entries or
meta.xml), so that every cell type RP2 can meet is under our control (float, string, boolean,
empty), and so that storage-level corruption can be applied to known bytes.

A grid is a list of rows, a row a list of cells, a cell one of:
  None            -> empty cell
  float / int     -> office:value-type="float"
  str             -> office:value-type="string"
  bool            -> office:value-type="boolean"
  {"t": "float_text", "v": "1,5"}   -> *string* cell (number typed as text)
All rows of one sheet are padded to the same width, which is what ezodf's row iterator
yields for LibreOffice files as well.
"""
import io
import zipfile
from xml.sax.saxutils import escape, quoteattr

_MIMETYPE = "application/vnd.oasis.opendocument.spreadsheet"
_NS = (
    'xmlns:office="urn:oasis:names:tc:opendocument:xmlns:office:1.0" '
    'xmlns:style="urn:oasis:names:tc:opendocument:xmlns:style:1.0" '
    'xmlns:text="urn:oasis:names:tc:opendocument:xmlns:text:1.0" '
    'xmlns:table="urn:oasis:names:tc:opendocument:xmlns:table:1.0" '
    'xmlns:meta="urn:oasis:names:tc:opendocument:xmlns:meta:1.0" '
    'xmlns:dc="http://purl.org/dc/elements/1.1/" '
    'xmlns:number="urn:oasis:names:tc:opendocument:xmlns:datastyle:1.0" '
    'xmlns:fo="urn:oasis:names:tc:opendocument:xmlns:xsl-fo-compatible:1.0"'
)
_FIXED_DATE = (2020, 1, 1, 0, 0, 0)


def _cell_xml(cell):
    if cell is None:
        return "<table:table-cell/>"
    if isinstance(cell, bool):
        v = "true" if cell else "false"
        return f'<table:table-cell office:value-type="boolean" office:boolean-value="{v}"><text:p>{v.upper()}</text:p></table:table-cell>'
    if isinstance(cell, (int, float)):
        r = repr(float(cell))
        return f'<table:table-cell office:value-type="float" office:value="{r}"><text:p>{r}</text:p></table:table-cell>'
    if isinstance(cell, dict):
        if cell.get("t") == "date":
            return f'<table:table-cell office:value-type="date" office:date-value="{cell["v"]}"><text:p>{cell["v"]}</text:p></table:table-cell>'
        if cell.get("t") == "bool":
            v = "true" if cell["v"] else "false"
            return f'<table:table-cell office:value-type="boolean" office:boolean-value="{v}"><text:p>{v.upper()}</text:p></table:table-cell>'
        cell = cell["v"]
    return f'<table:table-cell office:value-type="string"><text:p>{escape(str(cell))}</text:p></table:table-cell>'


def content_xml(sheets):
    """sheets: list of (name, grid)."""
    out = [f'<?xml version="1.0" encoding="UTF-8"?>\n<office:document-content {_NS} office:version="1.2">']
    out.append("<office:automatic-styles/><office:body><office:spreadsheet>")
    for name, grid in sheets:
        width = max([len(r) for r in grid] + [1])
        out.append(f"<table:table table:name={quoteattr(name)}>")
        out.append(f'<table:table-column table:number-columns-repeated="{width}"/>')
        if not grid:
            out.append("<table:table-row>" + "<table:table-cell/>" * width + "</table:table-row>")
        for row in grid:
            cells = list(row) + [None] * (width - len(row))
            out.append("<table:table-row>" + "".join(_cell_xml(c) for c in cells) + "</table:table-row>")
        out.append("</table:table>")
    out.append("</office:spreadsheet></office:body></office:document-content>")
    return "".join(out).encode("utf-8")


def _manifest_xml(with_content=True):
    entries = [
        f'<manifest:file-entry manifest:full-path="/" manifest:media-type="{_MIMETYPE}"/>',
        '<manifest:file-entry manifest:full-path="styles.xml" manifest:media-type="text/xml"/>',
        '<manifest:file-entry manifest:full-path="meta.xml" manifest:media-type="text/xml"/>',
    ]
    if with_content:
        entries.append('<manifest:file-entry manifest:full-path="content.xml" manifest:media-type="text/xml"/>')
    return (
        '<?xml version="1.0" encoding="UTF-8"?>\n'
        '<manifest:manifest xmlns:manifest="urn:oasis:names:tc:opendocument:xmlns:manifest:1.0" manifest:version="1.2">'
        + "".join(entries)
        + "</manifest:manifest>"
    ).encode("utf-8")


def _styles_xml():
    return (
        f'<?xml version="1.0" encoding="UTF-8"?>\n<office:document-styles {_NS} office:version="1.2">'
        "<office:styles/><office:automatic-styles/><office:master-styles/></office:document-styles>"
    ).encode("utf-8")


def _meta_xml():
    return (
        f'<?xml version="1.0" encoding="UTF-8"?>\n<office:document-meta {_NS} office:version="1.2">'
        "<office:meta><meta:generator>rp2sim</meta:generator></office:meta></office:document-meta>"
    ).encode("utf-8")


def ods_bytes(sheets, with_content=True):
    buf = io.BytesIO()
    with zipfile.ZipFile(buf, "w") as z:
        def put(name, data, compress=zipfile.ZIP_DEFLATED):
            zi = zipfile.ZipInfo(name, _FIXED_DATE)
            zi.compress_type = compress
            zi.external_attr = 0o644 << 16
            z.writestr(zi, data)

        put("mimetype", _MIMETYPE.encode("ascii"), zipfile.ZIP_STORED)
        put("META-INF/manifest.xml", _manifest_xml(with_content))
        put("styles.xml", _styles_xml())
        put("meta.xml", _meta_xml())
        if with_content:
            put("content.xml", content_xml(sheets))
    return buf.getvalue()


# ---------------------------------------------------------------- reading reports (harness side)

_T = "{urn:oasis:names:tc:opendocument:xmlns:table:1.0}"
_O = "{urn:oasis:names:tc:opendocument:xmlns:office:1.0}"
_X = "{urn:oasis:names:tc:opendocument:xmlns:text:1.0}"


def _text_of(cell):
    parts = []
    for p in cell.iter(_X + "p"):
        parts.append("".join(p.itertext()))
    return "\n".join(parts)


def read_sheets(content_bytes, with_style=False):
    """Parse content.xml into {sheet name: [[cell,...],...]}; a cell is None or a tuple
    (value_type, value-or-text, formula[, style]). Repeated rows/cells are expanded (capped), trailing
    empty cells/rows trimmed."""
    from xml.etree import ElementTree as ET

    root = ET.fromstring(content_bytes)
    result = {}
    order = []
    for table in root.iter(_T + "table"):
        name = table.get(_T + "name")
        rows = []
        for row in table.iter(_T + "table-row"):
            rrep = int(row.get(_T + "number-rows-repeated", "1"))
            cells = []
            for cell in row:
                if cell.tag not in (_T + "table-cell", _T + "covered-table-cell"):
                    continue
                crep = int(cell.get(_T + "number-columns-repeated", "1"))
                vt = cell.get(_O + "value-type")
                formula = cell.get(_T + "formula")
                style = cell.get(_T + "style-name")
                if vt is None and formula is None:
                    c = None
                    if with_style and style is not None:
                        c = (None, None, None, style)
                else:
                    if vt in ("float", "percentage", "currency"):
                        val = cell.get(_O + "value")
                    elif vt == "date":
                        val = cell.get(_O + "date-value")
                    elif vt == "time":
                        val = cell.get(_O + "time-value")
                    elif vt == "boolean":
                        val = cell.get(_O + "boolean-value")
                    else:
                        val = _text_of(cell)
                    c = (vt, val, formula, style) if with_style else (vt, val, formula)
                cells.extend([c] * min(crep, 64 if c is None else crep))
            while cells and cells[-1] is None:
                cells.pop()
            rows.extend([cells] * min(rrep, 4 if not cells else rrep))
        while rows and not rows[-1]:
            rows.pop()
        result[name] = rows
        order.append(name)
    result["__order__"] = order
    return result
