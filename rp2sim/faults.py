"""Single input faults of the classes property C12 enumerates, each invalid *by construction*
against docs/input_files.md, addressed in logical terms (sheet, table, row index, field) so
that a minimised world can carry the same fault.

enumerate_faults(world, opts, facts) -> every applicable fault descriptor
apply_fault(world, opts, fault)      -> (config_text, ods_bytes, opts')
"""
import json
from decimal import Decimal

from . import odswriter
from . import world as W

IN_BAD_TYPES = ["SELL", "FEE", "LOST", "MOVE", "FOO"]
OUT_BAD_TYPES = ["BUY", "INTEREST", "AIRDROP", "MINING", "WAGES", "INCOME", "HARDFORK", "MOVE", "FOO"]
TEXTS = ["abc", "1,5", {"t": "float_text", "v": "1.5"}, "(2.5)", "- 3.0", "2.0-", "#N/A", "#DIV/0!", {"t": "date", "v": "2020-01-01"}]  # boolean-typed cells stay out: RP2 reads TRUE as 1, and the documentation does not call that invalid (borderline, section 4.1)


def _sheets_read(world, opts):
    for s in world["sheets"]:
        if opts.get("asset") and s["name"] != opts["asset"]:
            continue
        yield s


def _cellfault(cls, kind, sheet, table, i, field, value, **kw):
    d = {"class": cls, "kind": kind, "sheet": sheet, "table": table, "row": i, "field": field, "value": value}
    d.update(kw)
    return d


def enumerate_faults(world, opts, facts):
    """All applicable (class, position) pairs for this world and option tuple."""
    out = []
    country = opts["country"]
    configured = world["assets"]
    for s in _sheets_read(world, opts):
        name = s["name"]
        for t in s["tables"]:
            tt = t["type"]
            hdr = world["headers"][tt]
            for i, r in enumerate(t["rows"]):
                # unknown asset / exchange / holder
                out.append(_cellfault("unknown_name", "unknown_asset", name, tt, i, "asset", "NOPE"))
                # near misses of configured names: another letter case, a trailing blank, a look-alike letter - not what the config lists
                def near(value, pool):
                    outv = []
                    sw = value.swapcase()
                    if sw != value and sw not in pool:
                        outv.append(("case", sw))
                    if value + " " not in pool:
                        outv.append(("padded", value + " "))
                    look = value.replace("a", "\u0430", 1) if "a" in value else (value.replace("e", "\u0435", 1) if "e" in value else None)
                    if look and look not in pool:
                        outv.append(("lookalike", look))
                    wide = "".join(chr(ord(ch) + 0xFEE0) if "!" <= ch <= "~" else ("\u3000" if ch == " " else ch) for ch in value)
                    if wide != value and wide not in pool:
                        outv.append(("fullwidth", wide))  # typed through an input method editor: compatibility forms of the same letters
                    return outv

                for fld, pool, cat in (("exchange", world["exchanges"], "exchange"), ("from_exchange", world["exchanges"], "exchange"), ("to_exchange", world["exchanges"], "exchange"),
                                       ("holder", world["holders"], "holder"), ("from_holder", world["holders"], "holder"), ("to_holder", world["holders"], "holder"),
                                       ("asset", world["assets"], "asset")):
                    if fld in r or fld == "asset":
                        for tag, v in near(r.get(fld, name) if fld != "asset" else name, pool):
                            out.append(_cellfault("unknown_name", "unknown_%s_%s" % (cat, tag), name, tt, i, fld, v))
                # ... and names that are configured, but in another category (a holder cell naming an exchange, an exchange cell naming a
                # holder or an asset): still unknown where they stand
                for f in ("exchange", "from_exchange", "to_exchange"):
                    if f in r:
                        out.append(_cellfault("unknown_name", "unknown_exchange", name, tt, i, f, "Nowhere"))
                        for cat, pool in (("holder", world["holders"]), ("asset", world["assets"])):
                            cross = [x for x in pool if x not in world["exchanges"]]
                            if cross:
                                out.append(_cellfault("unknown_name", "unknown_exchange_is_" + cat, name, tt, i, f, cross[(i + len(f)) % len(cross)]))
                for f in ("holder", "from_holder", "to_holder"):
                    if f in r:
                        out.append(_cellfault("unknown_name", "unknown_holder", name, tt, i, f, "Nobody"))
                        for cat, pool in (("exchange", world["exchanges"]), ("asset", world["assets"])):
                            cross = [x for x in pool if x not in world["holders"]]
                            if cross:
                                out.append(_cellfault("unknown_name", "unknown_holder_is_" + cat, name, tt, i, f, cross[(i + len(f)) % len(cross)]))
                # timestamp without time zone
                out.append(_cellfault("no_timezone", "no_timezone", name, tt, i, "timestamp", "STRIP_TZ"))
                # the same naive timestamp in the other spellings a spreadsheet export produces
                for variant in ("iso_t", "iso_t_frac", "space_frac", "iso_t_frac6", "us_style", "compact"):
                    out.append(_cellfault("no_timezone", "no_timezone_" + variant, name, tt, i, "timestamp", "NAIVE:" + variant))
                # asset differs from sheet
                for other in configured:
                    if other != name:
                        out.append(_cellfault("asset_mismatch", "asset_mismatch", name, tt, i, "asset", other))
                        break
                # transaction type not allowed in the table
                if tt == "IN":
                    for v in IN_BAD_TYPES:
                        out.append(_cellfault("bad_type", "in_type_" + v.lower(), name, tt, i, "transaction_type", v))
                elif tt == "OUT":
                    for v in OUT_BAD_TYPES:
                        out.append(_cellfault("bad_type", "out_type_" + v.lower(), name, tt, i, "transaction_type", v))
                # non-positive amounts
                if tt == "IN":
                    if r["transaction_type"] != "STAKING":
                        out.append(_cellfault("nonpositive", "crypto_in_zero", name, tt, i, "crypto_in", 0))
                        out.append(_cellfault("nonpositive", "crypto_in_negative", name, tt, i, "crypto_in", Decimal("-1.5")))
                        out.append(_cellfault("nonpositive", "crypto_in_negative_tiny", name, tt, i, "crypto_in", Decimal("-0.00000001")))
                    for f in ("crypto_fee", "fiat_fee"):
                        if f in hdr and (f == "fiat_fee" and r.get("crypto_fee") is None or f == "crypto_fee" and r.get("fiat_fee") is None):
                            out.append(_cellfault("nonpositive", f + "_negative", name, tt, i, f, Decimal("-0.25")))
                            out.append(_cellfault("nonpositive", f + "_negative_tiny", name, tt, i, f, Decimal("-0.00000001")))
                    out.append(_cellfault("nonpositive", "spot_negative", name, tt, i, "spot_price", Decimal("-3")))
                    out.append(_cellfault("nonpositive", "spot_negative_tiny", name, tt, i, "spot_price", Decimal("-0.00000001")))
                    out.append(_cellfault("zero_spot", "in_spot_zero", name, tt, i, "spot_price", 0))
                    out.append(_cellfault("zero_spot", "in_spot_empty", name, tt, i, "spot_price", None))
                    if "crypto_fee" in hdr and "fiat_fee" in hdr:
                        out.append(_cellfault("both_fees", "both_fees", name, tt, i, "crypto_fee", Decimal("0.00000001"), also={"fiat_fee": Decimal("1.25")}))
                        # "mutually exclusive": both cells assigned, one of them (or both) with a literal 0
                        out.append(_cellfault("both_fees", "both_fees_crypto_zero", name, tt, i, "crypto_fee", Decimal(0), also={"fiat_fee": Decimal("1.25")}))
                        out.append(_cellfault("both_fees", "both_fees_fiat_zero", name, tt, i, "crypto_fee", Decimal("0.00000001"), also={"fiat_fee": Decimal(0)}))
                        out.append(_cellfault("both_fees", "both_fees_both_zero", name, tt, i, "crypto_fee", Decimal(0), also={"fiat_fee": Decimal(0)}))
                elif tt == "OUT":
                    if r["transaction_type"] != "FEE":
                        out.append(_cellfault("nonpositive", "crypto_out_zero", name, tt, i, "crypto_out_no_fee", 0))
                        out.append(_cellfault("nonpositive", "crypto_out_negative", name, tt, i, "crypto_out_no_fee", Decimal("-2")))
                        out.append(_cellfault("nonpositive", "crypto_out_negative_tiny", name, tt, i, "crypto_out_no_fee", Decimal("-0.00000001")))
                        out.append(_cellfault("zero_spot", "out_spot_zero", name, tt, i, "spot_price", 0))
                        out.append(_cellfault("zero_spot", "out_spot_empty", name, tt, i, "spot_price", None))
                    else:
                        out.append(_cellfault("nonpositive", "fee_row_zero_fee", name, tt, i, "crypto_fee", 0))
                    out.append(_cellfault("nonpositive", "out_fee_negative", name, tt, i, "crypto_fee", Decimal("-0.5")))
                    out.append(_cellfault("nonpositive", "out_fee_negative_tiny", name, tt, i, "crypto_fee", Decimal("-0.00000001")))
                    out.append(_cellfault("nonpositive", "spot_negative", name, tt, i, "spot_price", Decimal("-3")))
                else:
                    out.append(_cellfault("nonpositive", "sent_zero", name, tt, i, "crypto_sent", 0))
                    out.append(_cellfault("nonpositive", "sent_negative", name, tt, i, "crypto_sent", Decimal("-1")))
                    out.append(_cellfault("nonpositive", "received_negative", name, tt, i, "crypto_received", Decimal("-1")))
                    out.append(_cellfault("nonpositive", "sent_negative_tiny", name, tt, i, "crypto_sent", Decimal("-0.00000001")))
                    out.append(_cellfault("nonpositive", "received_negative_tiny", name, tt, i, "crypto_received", Decimal("-0.00000001")))
                    if r.get("spot_price") is not None:
                        out.append(_cellfault("nonpositive", "spot_negative", name, tt, i, "spot_price", Decimal("-3")))
                    if W.D(r["crypto_sent"]) > W.D(r["crypto_received"]):
                        out.append(_cellfault("zero_spot", "intra_fee_spot_zero", name, tt, i, "spot_price", 0))
                        out.append(_cellfault("zero_spot", "intra_fee_spot_empty", name, tt, i, "spot_price", None))
                    out.append(_cellfault("recv_gt_sent", "recv_gt_sent", name, tt, i, "crypto_received", W.D(r["crypto_sent"]) + Decimal("0.5")))
                    out.append(_cellfault("recv_gt_sent", "recv_gt_sent_small", name, tt, i, "crypto_received", W.D(r["crypto_sent"]) + Decimal("0.004")))
                    out.append(_cellfault("recv_gt_sent", "recv_gt_sent_tiny", name, tt, i, "crypto_received", W.D(r["crypto_sent"]) + Decimal("0.00000001")))
                # non-numeric numbers
                mandatory_numeric = {"IN": ["spot_price", "crypto_in"], "OUT": ["crypto_out_no_fee", "crypto_fee"] + (["spot_price"] if r.get("transaction_type") != "FEE" else []),
                                     "INTRA": ["crypto_sent", "crypto_received"]}[tt]
                for f in mandatory_numeric:
                    for k, v in enumerate(TEXTS):
                        out.append(_cellfault("nonnumeric", "text%d_in_%s" % (k, f), name, tt, i, f, v))
                    if f != "spot_price":
                        out.append(_cellfault("nonnumeric", "empty_" + f, name, tt, i, f, None))
                for f in hdr:
                    if f in W.NUMERIC_FIELDS and f not in mandatory_numeric and not (tt == "OUT" and f == "spot_price"):
                        out.append(_cellfault("nonnumeric", "text_in_optional_" + f, name, tt, i, f, "abc"))
                # blank first cell inside a table
                out.append({"class": "structure", "kind": "blank_first_cell", "sheet": name, "table": tt, "row": i})
                out.append({"class": "structure", "kind": "keyword_inside_table", "sheet": name, "table": tt, "row": i, "keyword": {"IN": "OUT", "OUT": "INTRA", "INTRA": "IN"}[tt]})
            # table level structure faults
            out.append({"class": "structure", "kind": "delete_table_end", "sheet": name, "table": tt})
            if t is s["tables"][-1]:
                out.append({"class": "structure", "kind": "delete_table_end_at_eof", "sheet": name, "table": tt})
            out.append({"class": "structure", "kind": "spurious_table_end", "sheet": name, "table": tt})
            if t["rows"]:
                out.append({"class": "structure", "kind": "repeat_table", "sheet": name, "table": tt})
                out.append({"class": "structure", "kind": "repeat_table_other_case", "sheet": name, "table": tt})
                out.append({"class": "structure", "kind": "data_outside_table", "sheet": name, "table": tt, "row": len(t["rows"]) - 1})
                out.append({"class": "structure", "kind": "delete_header", "sheet": name, "table": tt})
        out.append({"class": "structure", "kind": "delete_in_table", "sheet": name})
        out.append({"class": "structure", "kind": "empty_in_table", "sheet": name})
        out.append({"class": "structure", "kind": "delete_sheet", "sheet": name})
    # config faults
    for section in ("in_header", "out_header", "intra_header", "general"):
        out.append({"class": "config", "kind": "drop_section", "section": section})
        out.append({"class": "config", "kind": "duplicate_section", "section": section})
    for field in ("assets", "exchanges", "holders"):
        out.append({"class": "config", "kind": "drop_general_field", "field": field})
        out.append({"class": "config", "kind": "duplicate_list_element", "field": field})
        out.append({"class": "config", "kind": "empty_list_element", "field": field})
        out.append({"class": "config", "kind": "empty_list", "field": field})
    for table in ("IN", "OUT", "INTRA"):
        out.append({"class": "config", "kind": "duplicate_column", "table": table})
        if "notes" in world["headers"][table] and "unique_id" in world["headers"][table]:
            out.append({"class": "config", "kind": "duplicate_column", "table": table, "pair": "harmless"})
        out.append({"class": "config", "kind": "noninteger_column", "table": table, "value": "abc"})
        out.append({"class": "config", "kind": "noninteger_column", "table": table, "value": "1.5"})
        out.append({"class": "config", "kind": "negative_column", "table": table})
        # a field mapped to a column the sheet does not have (beyond its last column): an optional one and a mandatory one
        # (only where some sheet that is read has rows in that table: a mapping no row is ever read through is harmless)
        if any(t["rows"] for s in _sheets_read(world, opts) for t in s["tables"] if t["type"] == table):
            opt_fields = [f for f in world["headers"][table] if f in W.FIELDS[table][1]]
            if opt_fields:
                out.append({"class": "config", "kind": "column_beyond_sheet", "table": table, "field": opt_fields[len(table) % len(opt_fields)]})
            out.append({"class": "config", "kind": "column_beyond_sheet", "table": table, "field": W.FIELDS[table][0][-1]})
        out.append({"class": "config", "kind": "unknown_header_key", "table": table})
        out.append({"class": "config", "kind": "empty_header_section", "table": table})
    # the optional generators field of [general]: names of report generator plugins; one that does not exist (a typo, another
    # country's generator) next to valid ones, and alone
    gens = list(facts[country]["generators"])
    foreign = {"us": "jp.tax_report_jp", "jp": "us.tax_report_us"}.get(country, "us.tax_report_us")
    out.append({"class": "config", "kind": "unknown_generator", "value": gens + ["tax_report_nonexistent"]})
    out.append({"class": "config", "kind": "unknown_generator", "value": gens[:1] + [foreign]})
    out.append({"class": "config", "kind": "unknown_generator", "value": ["open_positionz"]})
    out.append({"class": "config", "kind": "unknown_section"})
    # unknown sections whose names are words the config format uses elsewhere (field and list names): still not sections
    for word in ("notes", "exchanges", "holder", "unique_id coinbase", "assets", "timestamp", "crypto_fee"):
        out.append({"class": "config", "kind": "unknown_section_named_like_field", "value": word})
    out.append({"class": "config", "kind": "line_before_section"})
    out.append({"class": "config", "kind": "json_format"})
    # the deprecated JSON format with its optional keys, with content its schema rejects, and with a non-object document
    for variant in ("full", "generators", "accounting_methods", "schema_invalid", "not_object", "unknown_key"):
        out.append({"class": "config", "kind": "json_format", "variant": variant})
    out.append({"class": "config", "kind": "truncated"})
    out.append({"class": "config", "kind": "zero_length"})
    out.append({"class": "config", "kind": "binary_garbage"})
    if world.get("methods"):
        out.append({"class": "config", "kind": "bad_method_year"})
        out.append({"class": "config", "kind": "unknown_method_in_schedule"})
    # storage-level corruption of the spreadsheet
    for frac in (0.1, 0.5, 0.9, 0.99):
        out.append({"class": "storage", "kind": "truncated_zip", "frac": frac})
    out.append({"class": "storage", "kind": "zero_length_input"})
    out.append({"class": "storage", "kind": "not_a_zip"})
    out.append({"class": "storage", "kind": "zip_without_content"})
    out.append({"class": "storage", "kind": "content_not_xml"})
    # damage inside content.xml that a "recovering" parser would paper over: the tail of the document lost (zero-filled blocks of a bad
    # disk / interrupted copy), with and without a stray control character before it
    for kind in ("content_zero_filled_tail", "content_control_char_and_cut", "content_cut_after_table_end"):
        out.append({"class": "storage", "kind": kind})
    # command line
    fc = facts[country]
    if world.get("methods"):
        out.append({"class": "cmdline", "kind": "method_and_schedule", "value": fc["default_method"]})
    others = [m for m in ("fifo", "hifo", "lifo", "lofo") if m not in fc["methods"]]
    if others and not world.get("methods"):
        out.append({"class": "cmdline", "kind": "method_not_accepted", "value": others[0]})
    if not world.get("methods"):
        out.append({"class": "cmdline", "kind": "method_unknown", "value": "specific_id"})
    out.append({"class": "cmdline", "kind": "unknown_language", "value": "xx"})
    out.append({"class": "cmdline", "kind": "language_without_catalog", "value": "fr"})
    nolang = [c for c in fc.get("catalogs", []) if c not in fc["languages"]]
    if nolang:
        out.append({"class": "cmdline", "kind": "language_without_templates", "value": nolang[0]})
    # region / case variants of a shipped language that the tree ships neither templates nor a catalog for (README: -g takes one of the
    # shipped language codes): "en_GB" is not "en"
    for lang in fc["languages"]:
        if "_" not in lang and len(lang) == 2:
            variant = {"en": "en_GB", "ja": "ja_JP", "es": "es_ES", "kl": "kl_GL"}.get(lang, lang + "_" + lang.upper())
            if variant not in fc["languages"] and variant not in fc.get("mentioned_languages", []):
                out.append({"class": "cmdline", "kind": "language_region_variant", "value": variant})
            if lang.upper() not in fc["languages"]:
                out.append({"class": "cmdline", "kind": "language_case_variant", "value": lang.upper()})
            break
    out.append({"class": "cmdline", "kind": "from_after_to"})
    out.append({"class": "cmdline", "kind": "malformed_date", "opt": "-f", "value": "2020-13-45"})
    out.append({"class": "cmdline", "kind": "malformed_date", "opt": "-t", "value": "yesterday"})
    for k, v in enumerate(["", "2021-02-30", "21-02-03", "2021/02/03", "2021-02-03T10:00:00", " "]):
        out.append({"class": "cmdline", "kind": "malformed_date", "opt": "-f" if k % 2 == 0 else "-t", "value": v})
    out.append({"class": "cmdline", "kind": "unknown_asset_option", "value": "NOPE"})
    out.append({"class": "cmdline", "kind": "deprecated_plugin_option"})
    out.append({"class": "cmdline", "kind": "missing_config"})
    out.append({"class": "cmdline", "kind": "missing_input"})
    out.append({"class": "cmdline", "kind": "input_not_ods"})
    out.append({"class": "cmdline", "kind": "unknown_option"})
    out.append({"class": "cmdline", "kind": "missing_positional"})
    if country == "jp":
        out.append({"class": "cmdline", "kind": "jp_from_and_to"})
    return out


def enumerate_oddities(world, opts, facts=None):
    """Inputs of debatable validity (tolerated by some spreadsheet importers, rejected by others). They are NOT C12 faults - whether
    RP2 accepts or rejects them is not asserted anywhere - but they drive tolerance / repair / fallback code, which is where a
    program starts writing things it should not. Used by C18 (confinement must hold either way) and as C17 history runs."""
    out = []
    sheets = list(_sheets_read(world, opts))
    for s in sheets[:2]:
        name = s["name"]
        for t in s["tables"]:
            tt = t["type"]
            out.append({"class": "oddity", "kind": "kw_end_trailing_space", "sheet": name, "table": tt})
            out.append({"class": "oddity", "kind": "kw_end_lowercase", "sheet": name, "table": tt})
            out.append({"class": "oddity", "kind": "kw_begin_padded", "sheet": name, "table": tt})
            if t["rows"]:
                num = {"IN": "crypto_in", "OUT": "crypto_out_no_fee", "INTRA": "crypto_sent"}[tt]
                out.append(_cellfault("oddity", "amount_as_currency_text", name, tt, 0, num, "$1,234.56"))
                out.append(_cellfault("oddity", "amount_with_unit_text", name, tt, len(t["rows"]) - 1, num, "0.5 " + name))
                out.append(_cellfault("oddity", "tz_abbreviation", name, tt, 0, "timestamp", "TZ_ABBREV"))
                out.append(_cellfault("oddity", "date_only_timestamp", name, tt, 0, "timestamp", "DATE_ONLY"))
                out.append(_cellfault("oddity", "huge_note", name, tt, 0, "notes", "n" * 70000))
                out.append(_cellfault("oddity", "boolean_note", name, tt, 0, "notes", True))
    for kind in ("config_crlf", "config_bom", "config_inline_comments", "config_uppercase_keys", "config_default_section", "config_trailing_garbage_line",
                 "extra_sheet_with_table", "sheet_name_padded"):
        out.append({"class": "oddity", "kind": kind})
    # XML features of the spreadsheet container that a parser may or may not resolve: an external entity / DTD served over http, and one
    # pointing at a local file (loopback discard port, refused at once if ever tried: nothing must be contacted; libxml2 would do so below Python, where only the
    # system-call monitor can see it)
    for kind in ("ods_external_http_entity", "ods_external_http_dtd", "ods_external_file_entity", "ods_xinclude_http"):
        out.append({"class": "oddity", "kind": kind})
    for part in ("META-INF/manifest.xml", "styles.xml", "meta.xml", "settings.xml"):
        out.append({"class": "oddity", "kind": "ods_part_http_entity", "part": part})
    if facts:
        fc = facts[opts["country"]]
        # half-supported generation languages: mentioned somewhere in the tree (a locale directory, a template) but not shipped completely
        for lang in fc.get("mentioned_languages", []):
            if lang not in fc["languages"]:
                out.append({"class": "oddity", "kind": "lang_partially_shipped", "value": lang})
        out.append({"class": "oddity", "kind": "lang_with_territory", "value": (fc["languages"] or ["en"])[0] + "_ZZ"})
    return out


# ------------------------------------------------------------------------------ application


def _find_sheet(world, name):
    for s in world["sheets"]:
        if s["name"] == name:
            return s
    raise KeyError(name)


def _find_table(sheet, tt):
    for t in sheet["tables"]:
        if t["type"] == tt:
            return t
    raise KeyError(tt)


def _strip_tz(ts):
    if ts.endswith("Z"):
        return ts[:-1]
    for k in (6, 5):
        if ts[-k] in "+-":
            return ts[:-k]
    return ts


def _config_sections(text):
    """-> list of [header line, [body lines]] preserving order."""
    sections = []
    for line in text.splitlines():
        if line.startswith("["):
            sections.append([line, []])
        elif sections:
            sections[-1][1].append(line)
    return sections


def _render_sections(sections, preamble=""):
    return preamble + "\n".join(h + "\n" + "\n".join(b) for h, b in sections) + "\n"


def apply_fault(world, opts, fault):
    """Returns (config_text, ods_bytes, opts'). The world handed in is not modified."""
    world = W.clone(world)
    opts = dict(opts)
    cls, kind = fault["class"], fault["kind"]
    grid_ops = []
    config_text = None
    ods = None

    if "field" in fault and "table" in fault and cls != "config":
        t = _find_table(_find_sheet(world, fault["sheet"]), fault["table"])
        r = t["rows"][fault["row"]]
        v = fault["value"]
        if v == "STRIP_TZ":
            v = _strip_tz(r["timestamp"])
        elif isinstance(v, str) and v.startswith("NAIVE:"):
            local = W.parse_ts(r["timestamp"]).replace(tzinfo=None)
            v = {"iso_t": local.strftime("%Y-%m-%dT%H:%M:%S"), "iso_t_frac": local.strftime("%Y-%m-%dT%H:%M:%S") + ".250",
                 "space_frac": local.strftime("%Y-%m-%d %H:%M:%S") + ".5", "iso_t_frac6": local.strftime("%Y-%m-%dT%H:%M:%S") + ".000000",
                 "us_style": "%d/%d/%d %d:%02d:%02d" % (local.month, local.day, local.year, local.hour, local.minute, local.second),
                 "compact": local.strftime("%Y%m%dT%H%M%S")}[v[6:]]
        elif v == "TZ_ABBREV":
            v = W.parse_ts(r["timestamp"]).astimezone(W.UTC).strftime("%Y-%m-%d %H:%M:%S") + " UTC"
        elif v == "DATE_ONLY":
            v = W.parse_ts(r["timestamp"]).strftime("%Y-%m-%d")
        if fault["field"] in W.NUMERIC_FIELDS and isinstance(v, str):
            v = {"t": "float_text", "v": v}
        r[fault["field"]] = v
        for f2, v2 in (fault.get("also") or {}).items():
            r[f2] = v2
    elif cls == "oddity":
        if kind.startswith("kw_"):
            grid_ops.append(fault)
        elif kind == "extra_sheet_with_table":
            world["extra_sheets"] = list(world.get("extra_sheets") or []) + ["UnlistedTable"]
        elif kind in ("lang_partially_shipped", "lang_with_territory"):
            opts["lang"] = fault["value"]
        elif kind == "sheet_name_padded":
            world["sheets"][0]["name"] = world["sheets"][0]["name"] + " "
        else:
            text = W.render_config(world)
            if kind == "config_crlf":
                config_text = text.replace("\n", "\r\n")
            elif kind == "config_bom":
                config_text = "\ufeff" + text
            elif kind == "config_inline_comments":
                config_text = "\n".join((ln + " ; col" if "=" in ln and not ln.startswith("[") else ln) for ln in text.splitlines()) + "\n"
            elif kind == "config_uppercase_keys":
                config_text = "\n".join((ln.split("=", 1)[0].upper() + "=" + ln.split("=", 1)[1] if "=" in ln else ln) for ln in text.splitlines()) + "\n"
            elif kind == "config_default_section":
                config_text = "[DEFAULT]\nnote = shared\n\n" + text
            elif kind == "config_trailing_garbage_line":
                config_text = text + "\nthis line is not a key value pair\n"
    elif cls == "structure":
        if kind == "delete_sheet":
            world["sheets"] = [s for s in world["sheets"] if s["name"] != fault["sheet"]]
        elif kind == "delete_in_table":
            s = _find_sheet(world, fault["sheet"])
            s["tables"] = [t for t in s["tables"] if t["type"] != "IN"]
        elif kind == "empty_in_table":
            _find_table(_find_sheet(world, fault["sheet"]), "IN")["rows"] = []
        else:
            grid_ops.append(fault)
    elif cls == "config":
        text = W.render_config(world)
        secs = _config_sections(text)
        hs = W.HEADER_SECTION

        def sec(name):
            for s in secs:
                if s[0].strip() == "[%s]" % name:
                    return s
            raise KeyError(name)

        if kind == "unknown_generator":
            world["generators"] = list(fault["value"])
            text = W.render_config(world)
            secs = _config_sections(text)
        elif kind == "drop_section":
            secs = [s for s in secs if s[0].strip() != "[%s]" % fault["section"]]
        elif kind == "duplicate_section":
            s = sec(fault["section"])
            secs.append([s[0], list(s[1])])
        elif kind == "drop_general_field":
            s = sec("general")
            s[1] = [ln for ln in s[1] if not ln.startswith(fault["field"] + " =")]
        elif kind in ("duplicate_list_element", "empty_list_element", "empty_list"):
            s = sec("general")
            for i, ln in enumerate(s[1]):
                if ln.startswith(fault["field"] + " ="):
                    first = ln.split("=", 1)[1].split(",")[0].strip()
                    if kind == "duplicate_list_element":
                        s[1][i] = ln + ", " + first
                    elif kind == "empty_list_element":
                        s[1][i] = "%s = %s, , %s" % (fault["field"], first, "Zed")
                    else:
                        s[1][i] = "%s =" % fault["field"]
        elif kind == "column_beyond_sheet":
            s = sec(hs[fault["table"]])
            s[1] = [ln if not ln.startswith(fault["field"] + " =") else "%s = %d" % (fault["field"], world["ncols"] + 27) for ln in s[1]]
        elif kind in ("duplicate_column", "noninteger_column", "negative_column", "unknown_header_key", "empty_header_section"):
            s = sec(hs[fault["table"]])
            body = [ln for ln in s[1] if "=" in ln]
            if kind == "duplicate_column":
                keys = {ln.split("=")[0].strip(): ln.split("=")[1].strip() for ln in body}
                if fault.get("pair") == "harmless" and "notes" in keys and "unique_id" in keys:
                    k1, v0 = "notes", keys["unique_id"]  # two optional text fields on one column: nothing else would stop the run
                else:
                    v0 = body[0].split("=")[1].strip()
                    k1 = body[1].split("=")[0].strip()
                s[1] = [ln if not ln.startswith(k1 + " =") else "%s = %s" % (k1, v0) for ln in s[1]]
            elif kind == "noninteger_column":
                k1 = body[-1].split("=")[0].strip()
                s[1] = [ln if not ln.startswith(k1 + " =") else "%s = %s" % (k1, fault["value"]) for ln in s[1]]
            elif kind == "negative_column":
                k1 = body[-1].split("=")[0].strip()
                s[1] = [ln if not ln.startswith(k1 + " =") else "%s = -1" % k1 for ln in s[1]]
            elif kind == "unknown_header_key":
                s[1] = [ln for ln in s[1] if ln.strip()] + ["bogus_field = %d" % (world["ncols"] + 3), ""]
            else:
                s[1] = [""]
        elif kind == "unknown_section":
            secs.append(["[bogus]", ["x = 1"]])
        elif kind == "unknown_section_named_like_field":
            secs.insert(len(fault["value"]) % (len(secs) + 1), ["[%s]" % fault["value"], ["x = 1", "y = Kraken"]])
        elif kind == "bad_method_year":
            s = sec("accounting_methods")
            s[1] = ["twenty = fifo"] + s[1]
        elif kind == "unknown_method_in_schedule":
            s = sec("accounting_methods")
            body = [ln for ln in s[1] if "=" in ln]
            k1 = body[-1].split("=")[0].strip()
            s[1] = [ln if not ln.startswith(k1 + " =") else "%s = average_cost" % k1 for ln in s[1]]
        config_text = _render_sections(secs)
        if kind == "line_before_section":
            config_text = "assets = BTC\n" + text
        elif kind == "json_format":
            doc = {"in_header": world["headers"]["IN"], "out_header": world["headers"]["OUT"], "intra_header": world["headers"]["INTRA"],
                   "assets": world["assets"], "exchanges": world["exchanges"], "holders": world["holders"]}
            variant = fault.get("variant")
            gens = ["open_positions", "rp2_full_report"]
            sched = {str(y): m for y, m in (world.get("methods") or [[2020, "fifo"], [2022, "lifo"]])}
            if variant == "full":
                doc.update({"generators": gens, "accounting_methods": sched})
            elif variant == "generators":
                doc["generators"] = gens
            elif variant == "accounting_methods":
                doc["accounting_methods"] = sched
            elif variant == "schema_invalid":
                doc["in_header"] = dict(doc["in_header"], timestamp=-1)
                doc["assets"] = []
            elif variant == "not_object":
                doc = [doc]
            elif variant == "unknown_key":
                doc["frobnicate"] = {"x": [1, 2, 3]}
            config_text = json.dumps(doc, indent=2)
        elif kind == "truncated":
            lines = text.splitlines(True)
            # cut inside the first section: every later (mandatory) section is lost
            config_text = "".join(lines[:2])[:-3]
        elif kind == "zero_length":
            config_text = ""
        elif kind == "binary_garbage":
            config_text = b"\x00\xff\xfe[general\x00\x01\x02" * 5
    elif cls == "storage":
        good = odswriter.ods_bytes(W.render_grids(world))
        if kind == "truncated_zip":
            ods = good[: max(1, int(len(good) * fault["frac"]))]
        elif kind == "zero_length_input":
            ods = b""
        elif kind == "not_a_zip":
            ods = b"timestamp,asset,exchange\n2020-01-01 00:00:00+00:00,BTC,Coinbase\n" * 20
        elif kind == "zip_without_content":
            ods = odswriter.ods_bytes(W.render_grids(world), with_content=False)
        elif kind == "content_not_xml":
            import io  # pylint: disable=import-outside-toplevel
            import zipfile  # pylint: disable=import-outside-toplevel

            buf = io.BytesIO()
            with zipfile.ZipFile(io.BytesIO(good)) as zin, zipfile.ZipFile(buf, "w") as zout:
                for item in zin.infolist():
                    data = zin.read(item.filename)
                    if item.filename == "content.xml":
                        data = data[: len(data) // 2]
                    zout.writestr(item, data)
            ods = buf.getvalue()
        elif kind in ("content_zero_filled_tail", "content_control_char_and_cut", "content_cut_after_table_end"):
            import io  # pylint: disable=import-outside-toplevel
            import zipfile  # pylint: disable=import-outside-toplevel

            buf = io.BytesIO()
            with zipfile.ZipFile(io.BytesIO(good)) as zin, zipfile.ZipFile(buf, "w") as zout:
                for item in zin.infolist():
                    data = zin.read(item.filename)
                    if item.filename == "content.xml":
                        marks = [m for m in range(len(data)) if data.startswith(b"TABLE END", m)]
                        cut = data.index(b"</table:table-row>", marks[0]) + len(b"</table:table-row>") if marks else len(data) * 2 // 3
                        if kind == "content_zero_filled_tail":
                            data = data[:cut] + b"\x00" * (len(data) - cut)
                        elif kind == "content_control_char_and_cut":
                            at = data.index(b"<text:p>") + len(b"<text:p>")
                            data = data[:at] + b"\x0b" + data[at:cut]
                        else:
                            data = data[:cut]
                    zout.writestr(item, data)
            ods = buf.getvalue()
    elif cls == "cmdline":
        if kind in ("method_and_schedule", "method_not_accepted", "method_unknown"):
            opts["method"] = fault["value"]
        elif kind in ("unknown_language", "language_without_catalog", "language_without_templates", "language_region_variant", "language_case_variant"):
            opts["lang"] = fault["value"]
        elif kind == "from_after_to":
            opts["from"], opts["to"] = "2021-06-02", "2021-06-01"
        elif kind == "malformed_date":
            opts["from" if fault["opt"] == "-f" else "to"] = fault["value"]
        elif kind == "unknown_asset_option":
            opts["asset"] = fault["value"]
        elif kind == "deprecated_plugin_option":
            opts["extra_argv"] = ["-l", "rp2_full_report"]
        elif kind == "missing_config":
            opts["cmd_fault"] = "missing_config"
        elif kind == "missing_input":
            opts["cmd_fault"] = "missing_input"
        elif kind == "input_not_ods":
            opts["cmd_fault"] = "input_not_ods"
        elif kind == "unknown_option":
            opts["extra_argv"] = ["--frobnicate"]
        elif kind == "missing_positional":
            opts["cmd_fault"] = "missing_positional"
        elif kind == "jp_from_and_to":
            opts["from"], opts["to"] = "2000-01-01", "2090-12-31"

    if config_text is None:
        config_text = W.render_config(world)
    if ods is None:
        sheets = []
        for s in world["sheets"]:
            grid, index = W.render_grid(world, s)
            for op in grid_ops:
                if op["sheet"] == s["name"]:
                    grid = _apply_grid_op(world, s, grid, index, op)
            sheets.append((s["name"], grid))
        for name in world.get("extra_sheets", []):
            sheets.append((name, [[None, "scratch"], [None, 3.5]]))
        ods = odswriter.ods_bytes(sheets)
    if cls == "oddity" and kind == "ods_part_http_entity":
        ods = _entity_in_part(ods, fault["part"])
    elif cls == "oddity" and kind.startswith("ods_"):
        ods = _rewrite_content(ods, kind)
    return config_text, ods, opts


def _entity_in_part(ods, part):
    """Declare an external general entity (http, loopback discard port) in one XML part of the container and reference it in element
    content; a part the writer does not produce is added."""
    import io  # pylint: disable=import-outside-toplevel
    import re  # pylint: disable=import-outside-toplevel
    import zipfile  # pylint: disable=import-outside-toplevel

    buf = io.BytesIO()
    seen = False
    with zipfile.ZipFile(io.BytesIO(ods)) as zin, zipfile.ZipFile(buf, "w") as zout:
        for item in zin.infolist():
            data = zin.read(item.filename)
            if item.filename == part:
                seen = True
                text = data.decode("utf-8")
                m = re.search(r"<([A-Za-z_][\w:.-]*)", text[text.index("?>") + 2:] if text.startswith("<?xml") else text)
                root = m.group(1)
                start = text.index("<" + root)
                dtd = '<!DOCTYPE %s [<!ENTITY vendor SYSTEM "http://127.0.0.1:9/rp2sim-%s.txt">]>' % (root, root.replace(":", "-"))
                close = text.rindex("</" + root)
                text = text[:start] + dtd + text[start:close] + "&vendor;" + text[close:]
                data = text.encode("utf-8")
            zout.writestr(item, data)
        if not seen:
            root = {"META-INF/manifest.xml": "manifest:manifest", "meta.xml": "office:document-meta", "settings.xml": "office:document-settings",
                    "styles.xml": "office:document-styles"}[part]
            ns = root.split(":")[0]
            uri = "urn:oasis:names:tc:opendocument:xmlns:%s:1.0" % ("manifest" if ns == "manifest" else "office")
            zout.writestr(part, '<?xml version="1.0" encoding="UTF-8"?><!DOCTYPE %s [<!ENTITY vendor SYSTEM "http://127.0.0.1:9/rp2sim.txt">]><%s xmlns:%s="%s">&vendor;</%s>'
                          % (root, root, ns, uri, root))
    return buf.getvalue()


def _rewrite_content(ods, kind):
    """Re-pack the spreadsheet with a content.xml that carries an external reference."""
    import io  # pylint: disable=import-outside-toplevel
    import zipfile  # pylint: disable=import-outside-toplevel

    buf = io.BytesIO()
    with zipfile.ZipFile(io.BytesIO(ods)) as zin, zipfile.ZipFile(buf, "w") as zout:
        for item in zin.infolist():
            data = zin.read(item.filename)
            if item.filename == "content.xml":
                text = data.decode("utf-8")
                head, sep, rest = text.partition("?>")
                if not sep:
                    head, rest = "", text
                root_at = rest.index("<office:document-content")
                pre, doc = rest[:root_at], rest[root_at:]
                if kind == "ods_external_http_entity":
                    dtd = '<!DOCTYPE office:document-content [<!ENTITY ext SYSTEM "http://127.0.0.1:9/rp2sim-entity.txt">]>'
                    doc = doc.replace("</text:p>", "&ext;</text:p>", 1)
                elif kind == "ods_external_http_dtd":
                    dtd = '<!DOCTYPE office:document-content SYSTEM "http://127.0.0.1:9/rp2sim.dtd">'
                elif kind == "ods_external_file_entity":
                    dtd = '<!DOCTYPE office:document-content [<!ENTITY ext SYSTEM "file:///etc/hostname">]>'
                    doc = doc.replace("</text:p>", "&ext;</text:p>", 1)
                else:
                    dtd = ""
                    doc = doc.replace("<office:body>", '<office:body><xi:include xmlns:xi="http://www.w3.org/2001/XInclude" href="http://127.0.0.1:9/rp2sim-include.xml"/>', 1)
                data = (head + sep + pre + dtd + doc).encode("utf-8")
            zout.writestr(item, data)
    return buf.getvalue()


def _apply_grid_op(world, sheet, grid, index, op):
    kind = op["kind"]
    width = world["ncols"]
    tt = op.get("table")
    grid = [list(r) for r in grid]
    if kind == "kw_end_trailing_space":
        grid[index[(tt, "end")]][0] = "TABLE END "
    elif kind == "kw_end_lowercase":
        grid[index[(tt, "end")]][0] = "table end"
    elif kind == "kw_begin_padded":
        grid[index[(tt, "begin")]][0] = " " + str(grid[index[(tt, "begin")]][0]) + " "
    elif kind == "blank_first_cell":
        grid[index[(tt, op["row"])]][0] = None
    elif kind == "keyword_inside_table":
        grid.insert(index[(tt, op["row"])], [op["keyword"]] + [None] * (width - 1))
    elif kind == "delete_table_end":
        del grid[index[(tt, "end")]]
    elif kind == "delete_table_end_at_eof":
        del grid[index[(tt, "end")]:]  # the sheet ends inside the last table
    elif kind == "spurious_table_end":
        grid.insert(index[(tt, "end")] + 1, ["TABLE END"] + [None] * (width - 1))
    elif kind in ("repeat_table", "repeat_table_other_case"):
        t = _find_table(sheet, tt)
        grid.append([None] * width)
        first = str(grid[index[(tt, "begin")]][0])
        kw = tt if kind == "repeat_table" else (first.lower() if first != first.lower() else first.title())
        grid.append([kw] + [None] * (width - 1))
        grid.append(W.header_cells(world, tt))
        for r in t["rows"]:
            grid.append(W.row_cells(world, tt, r))
        grid.append(["TABLE END"] + [None] * (width - 1))
    elif kind == "data_outside_table":
        row = list(grid[index[(tt, op["row"])]])
        grid.insert(index[(tt, "end")] + 1, row)
    elif kind == "delete_header":
        del grid[index[(tt, "header")]]
    return grid
