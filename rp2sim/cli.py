"""Command line: python -m rp2sim check <id> --tier quick|thorough | replay <file> | selftest | gen <id> <index>"""
import argparse
import json
import os
import sys


def _reexec_fixed_hashseed():
    if os.environ.get("PYTHONHASHSEED") != "0" and not os.environ.get("RP2SIM_KEEP_HASHSEED"):
        env = dict(os.environ, PYTHONHASHSEED="0")
        os.execve(sys.executable, [sys.executable, "-m", "rp2sim"] + sys.argv[1:], env)


def main():
    _reexec_fixed_hashseed()
    from . import engine, runner  # pylint: disable=import-outside-toplevel

    ap = argparse.ArgumentParser(prog="rp2sim")
    sub = ap.add_subparsers(dest="cmd", required=True)
    c = sub.add_parser("check")
    c.add_argument("prop")
    c.add_argument("--tier", default=os.environ.get("VERIF_TIER", "quick"), choices=["quick", "thorough"])
    c.add_argument("--cases", type=int, default=None)
    c.add_argument("--src", default=None)
    c.add_argument("--no-evidence", action="store_true")
    r = sub.add_parser("replay")
    r.add_argument("path")
    r.add_argument("--src", default=None)
    s = sub.add_parser("selftest")
    s.add_argument("--mode", default="short", choices=["short", "full", "determinism", "sensitivity"])
    s.add_argument("--n", type=int, default=None)
    g = sub.add_parser("gen")
    g.add_argument("prop")
    g.add_argument("index", type=int)
    b = sub.add_parser("build")
    mu = sub.add_parser("mutants")
    mu.add_argument("--only", default=None)
    mu.add_argument("--tests", action="store_true")
    pa = sub.add_parser("patch")
    pa.add_argument("patch")
    pa.add_argument("--props", default="C12,C16,C17,C18")
    pa.add_argument("--cases", type=int, default=None)
    pa.add_argument("--tier", default="quick")
    se = sub.add_parser("seeded")
    se.add_argument("--only", default=None)
    se.add_argument("--tier", default="quick")
    args = ap.parse_args()
    del b
    master = int(os.environ.get("VERIF_SEED", "0") or 0)
    os.environ.pop("RP2SIM_SESSION", None) if args.cmd != "replay" else None
    runner.scratch_base()
    import atexit  # pylint: disable=import-outside-toplevel

    atexit.register(runner.cleanup_session)
    try:
        if args.cmd == "build":
            print(runner.ensure_shim())
            sys.exit(0)
        if args.cmd == "check":
            sys.exit(engine.check(args.prop, args.tier, master, cases=args.cases, src=args.src, write_evidence=not args.no_evidence))
        if args.cmd == "replay":
            ok, _ = engine.replay(args.path, src=args.src)
            sys.exit(1 if ok else 2)
        if args.cmd == "gen":
            from . import gen, tree  # pylint: disable=import-outside-toplevel
            from . import world as W  # pylint: disable=import-outside-toplevel

            mod = engine.mod_for(args.prop)
            case = mod.make_case(gen.case_seed(master, args.prop, args.index), tree.all_facts(runner.DEFAULT_SRC), args.index)
            print(json.dumps(W.to_jsonable(case), indent=1, ensure_ascii=False))
            sys.exit(0)
        if args.cmd == "mutants":
            from . import mutants  # pylint: disable=import-outside-toplevel

            res = mutants.catalogue(only=args.only.split(",") if args.only else None, tests=args.tests)
            bad = [r for r in res if not r["as_expected"]]
            print(json.dumps(res, indent=1))
            out_dir = os.path.join(runner.VERIF, "sensitivity")
            os.makedirs(out_dir, exist_ok=True)
            path = os.path.join(out_dir, "catalogue.json")
            merged = {}
            if os.path.exists(path):
                with open(path, encoding="utf-8") as fh:
                    merged = {r["mutant"]: r for r in json.load(fh)}
            for r in res:
                if r["tests_48_pass"] is None and r["mutant"] in merged:
                    r["tests_48_pass"] = merged[r["mutant"]].get("tests_48_pass")
                merged[r["mutant"]] = r
            with open(path, "w", encoding="utf-8") as fh:
                json.dump([merged[k] for k in sorted(merged)], fh, indent=1)
            sys.exit(0 if not bad else 3)
        if args.cmd == "patch":
            from . import mutants  # pylint: disable=import-outside-toplevel

            res = mutants.external_patch(args.patch, args.props.split(","), cases=args.cases, tier=args.tier)
            print(json.dumps(res, indent=1))
            sys.exit(0)
        if args.cmd == "seeded":
            from . import mutants  # pylint: disable=import-outside-toplevel

            sys.exit(mutants.seeded(only=args.only.split(",") if args.only else None, tier=args.tier))
        if args.cmd == "selftest":
            from . import selftest  # pylint: disable=import-outside-toplevel

            sys.exit(selftest.main(args.mode, master, args.n))
    except runner.HarnessError as exc:
        print("HARNESS-ERROR: %s" % exc)
        sys.exit(2)
    except Exception:  # pylint: disable=broad-except
        import traceback  # pylint: disable=import-outside-toplevel

        print("HARNESS-ERROR: unexpected exception in the harness")
        traceback.print_exc()
        sys.exit(2)
