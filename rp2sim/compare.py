"""Differential comparison of two recorded runs (C17): exit status, clock-free parts of every
report, normalised ComputedData dumps; and the per-asset projections used by the asset-subset
relation."""
import re

from . import odswriter

_METHOD_PREFIX = re.compile(r"^(.*?)(fifo|lifo|hifo|lofo|mixed)_(open_positions|rp2_full_report|tax_report_[a-z]+)\.ods$")


def report_key(name, prefix=""):
    """Report file name without the user prefix: '<method>_<report>.ods'."""
    if prefix and name.startswith(prefix):
        return name[len(prefix):]
    return name


def report_kind(name):
    m = _METHOD_PREFIX.match(name)
    return m.group(3) if m else name


def sheets_of(info):
    if info.get("_sheets") is None:
        info["_sheets"] = odswriter.read_sheets(info["content"], with_style=True) if info.get("content") else {}
    return info["_sheets"]


def first_grid_diff(g1, g2):
    n = max(len(g1), len(g2))
    for i in range(n):
        r1 = g1[i] if i < len(g1) else []
        r2 = g2[i] if i < len(g2) else []
        if r1 == r2:
            continue
        m = max(len(r1), len(r2))
        for j in range(m):
            c1 = r1[j] if j < len(r1) else None
            c2 = r2[j] if j < len(r2) else None
            if c1 != c2:
                return i, j, c1, c2
    return None


def norm_sheet_name(name, assets):
    for a in sorted(assets, key=len, reverse=True):
        if a and a in name:
            return name.replace(a, "<A>")
    return re.sub(r"\d{4}", "<Y>", name)


def first_report_diff(info1, info2, assets):
    """-> None or (site, detail) describing the first difference in content.xml / styles.xml."""
    if info1.get("styles_sha") != info2.get("styles_sha"):
        return "styles.xml", "styles.xml differs"
    if info1.get("content_sha") == info2.get("content_sha"):
        return None
    s1, s2 = sheets_of(info1), sheets_of(info2)
    o1, o2 = s1.get("__order__", []), s2.get("__order__", [])
    if o1 != o2:
        return "sheet-list", "sheets %s vs %s" % (o1, o2)
    for name in o1:
        d = first_grid_diff(s1[name], s2[name])
        if d:
            i, j, c1, c2 = d
            return "%s:c%d" % (norm_sheet_name(name, assets), j), "sheet %r row %d col %d: %r vs %r" % (name, i + 1, j, c1, c2)
    return "content.xml-bytes", "content.xml differs outside cell grids (sheet attributes / ordering / styles)"


def first_dump_diff(d1, d2, path="dump"):
    """First differing key path between two JSON-like structures."""
    if type(d1) is not type(d2):
        return path, "%r vs %r" % (d1, d2)
    if isinstance(d1, dict):
        for k in sorted(set(d1) | set(d2)):
            if k not in d1 or k not in d2:
                return "%s.%s" % (path, k), "key present on one side only"
            r = first_dump_diff(d1[k], d2[k], "%s.%s" % (path, k))
            if r:
                return r
        return None
    if isinstance(d1, list):
        if len(d1) != len(d2):
            return path + "[]", "length %d vs %d" % (len(d1), len(d2))
        for i, (a, b) in enumerate(zip(d1, d2)):
            r = first_dump_diff(a, b, path + "[]")
            if r:
                return r[0], "index %d: %s" % (i, r[1])
        return None
    if d1 != d2:
        return path, "%r vs %r" % (d1, d2)
    return None


def dumps_by_asset(res):
    return {d["asset"]: d for d in ((res.get("child") or {}).get("dumps") or [])}


# ------------------------------------------------------------------------------ asset projections


def _cellval(c):
    return None if c is None else c[1]


def _rows_with(grid, col, value):
    return [r for r in grid if len(r) > col and r[col] is not None and _cellval(r[col]) == value]


def _strip_empty_styles(grid):
    """Cells without value and formula only carry the style the template gave that physical row: not content."""
    out = []
    for r in grid:
        row = [None if (c is not None and c[0] is None and not c[1] and c[2] is None) else c for c in r]
        while row and row[-1] is None:
            row.pop()
        out.append(row)
    return out


def _is_asset_sheet(sname, asset):
    """'<asset> In-Out', '<asset> Tax', '<asset>_<year>' ... - not 'W <asset> ...' nor '<asset>.e ...' (other assets whose names contain this one)."""
    return sname == asset or (sname.startswith(asset) and sname[len(asset)] in " _")


def project_asset(reports, asset, prefix=""):
    """Everything the reports of a run say about one asset, in a form comparable between a run on
    all assets, a run with -a <asset> and a run on a world reduced to that asset."""
    proj = {}
    for name, info in sorted(reports.items()):
        kind = report_kind(report_key(name, prefix))
        sheets = sheets_of(info)
        order = sheets.get("__order__", [])
        if kind == "rp2_full_report":
            for sname in order:
                if _is_asset_sheet(sname, asset):
                    proj["full:%s" % ("<A>" + sname[len(asset):])] = sheets[sname]
            # summary lines of the asset: the sheet that is neither the legend nor an asset sheet
            for sname in order:
                grid = sheets[sname]
                lines = []
                for r in grid:
                    if len(r) > 1 and r[1] is not None:
                        val, formula = r[1][1], r[1][2]
                        if val == asset or (formula and formula.rstrip().endswith('"%s")' % asset)):
                            lines.append(r)
                if lines and not _is_asset_sheet(sname, asset):
                    proj["full:summary-lines"] = sorted(_strip_empty_styles(lines), key=repr)
        elif kind.startswith("tax_report_jp"):
            for sname in order:
                if _is_asset_sheet(sname, asset):
                    proj["jp:%s" % ("<A>" + sname[len(asset):])] = sheets[sname]
                else:
                    rows = _rows_with(sheets[sname], 0, asset)
                    if rows:
                        proj["jp-summary:%s" % sname] = _strip_empty_styles(rows)
        elif kind.startswith("tax_report_"):
            for sname in order:
                rows = _rows_with(sheets[sname], 1, asset)
                if rows:
                    proj["tax:%s" % sname] = _strip_empty_styles(rows)
        elif kind == "open_positions":
            # Asset sheet rows: asset, holder, balance, unit cost, cost basis | weight, row-numbered formulas ...
            # Asset-Exchange rows: asset, holder, exchange, balance, unit cost, cost basis | weight, ...
            # Input rows: asset, marker. Only the part left of '|' is independent of the rest of the portfolio.
            for idx, sname in enumerate(order):
                rows = []
                for r in _rows_with(sheets[sname], 0, asset):
                    lead = 0
                    while lead < len(r) and r[lead] is not None and r[lead][0] == "string" and r[lead][2] is None:
                        lead += 1
                    keep = lead + 3 if (len(r) > lead and r[lead] is not None and r[lead][0] == "float") else lead
                    rows.append([(c[0], c[1]) if c is not None else None for c in r[:keep]])
                if rows:
                    proj["open:%d" % idx] = rows
    return proj


def first_projection_diff(p1, p2):
    for k in sorted(set(p1) | set(p2)):
        if k not in p1 or k not in p2:
            return k, "present on one side only (%s)" % ("left" if k in p1 else "right")
        d = first_grid_diff(p1[k], p2[k])
        if d:
            i, j, c1, c2 = d
            return "%s:c%d" % (re.sub(r"\d{4}", "<Y>", k), j), "%s row %d col %d: %r vs %r" % (k, i + 1, j, c1, c2)
    return None
