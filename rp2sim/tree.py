"""Facts read from the source tree under test (never from a cached copy): which entry points
exist, which accounting methods each accepts, which report generators it configures and which
generation languages it ships templates and catalogs for. Read statically (AST / directory
listing) so that the harness never imports rp2 itself."""
import ast
import os

COUNTRIES = ["us", "jp", "es", "ie", "generic"]
_FALLBACK = {
    "us": {"methods": ["fifo", "hifo", "lifo", "lofo"], "default_method": "fifo", "generators": ["open_positions", "rp2_full_report", "us.tax_report_us"], "default_lang": "en"},
    "jp": {"methods": ["fifo"], "default_method": "fifo", "generators": ["open_positions", "rp2_full_report", "jp.tax_report_jp"], "default_lang": "ja"},
    "es": {"methods": ["fifo"], "default_method": "fifo", "generators": ["open_positions", "rp2_full_report"], "default_lang": "es"},
    "ie": {"methods": ["fifo"], "default_method": "fifo", "generators": ["open_positions", "rp2_full_report", "ie.tax_report_ie"], "default_lang": "en_IE"},
    "generic": {"methods": ["fifo", "hifo", "lifo", "lofo"], "default_method": "fifo", "generators": ["open_positions", "rp2_full_report"], "default_lang": "en"},
}


def _literal_return(func):
    for node in ast.walk(func):
        if isinstance(node, ast.Return) and node.value is not None:
            try:
                return ast.literal_eval(node.value)
            except Exception:  # pylint: disable=broad-except
                return None
    return None


def country_facts(src, country):
    facts = dict(_FALLBACK[country])
    path = os.path.join(src, "rp2", "plugin", "country", country + ".py")
    try:
        with open(path, encoding="utf-8") as fh:
            tree = ast.parse(fh.read())
        for node in ast.walk(tree):
            if isinstance(node, ast.FunctionDef):
                val = _literal_return(node)
                if val is None:
                    continue
                if node.name == "get_accounting_methods" and isinstance(val, (set, list, tuple)):
                    facts["methods"] = sorted(val)
                elif node.name == "get_default_accounting_method" and isinstance(val, str):
                    facts["default_method"] = val
                elif node.name == "get_report_generators" and isinstance(val, (set, list, tuple)):
                    facts["generators"] = sorted(val)
                elif node.name == "get_default_generation_language" and isinstance(val, str):
                    facts["default_lang"] = val
    except (OSError, SyntaxError):
        pass
    plug_dir = os.path.join(src, "rp2", "plugin", "accounting_method")
    try:
        plugins = {f[:-3] for f in os.listdir(plug_dir) if f.endswith(".py") and f != "__init__.py"}
        facts["methods"] = sorted(m for m in facts["methods"] if m in plugins)
    except OSError:
        pass
    # languages: template (.ods or .txt link) for every generator of the country + a message catalog
    data_dir = os.path.join(src, "rp2", "plugin", "report", "data", country)
    loc_dir = os.path.join(src, "rp2", "locales")
    langs = None
    try:
        files = os.listdir(data_dir)
    except OSError:
        files = []
    for gen in facts["generators"]:
        name = gen.rsplit(".", 1)[-1]
        prefix = "template_%s_" % name
        have = set()
        for f in files:
            if f.startswith(prefix) and (f.endswith(".ods") or f.endswith(".txt")):
                have.add(f[len(prefix):-4])
        langs = have if langs is None else (langs & have)
    langs = langs or set()
    catalogs = set()
    try:
        for d in os.listdir(loc_dir):
            if os.path.exists(os.path.join(loc_dir, d, "LC_MESSAGES", "messages.mo")):
                catalogs.add(d)
    except OSError:
        pass
    facts["languages"] = sorted(langs & catalogs)
    facts["catalogs"] = sorted(catalogs)
    # every language the tree mentions anywhere for this country (a locale directory, compiled or not; a template for any report)
    mentioned = set()
    try:
        mentioned.update(d for d in os.listdir(loc_dir) if os.path.isdir(os.path.join(loc_dir, d)))
    except OSError:
        pass
    for f in files:
        if f.startswith("template_") and (f.endswith(".ods") or f.endswith(".txt")):
            mentioned.add(f[:-4].rsplit("_", 1)[-1])
    facts["mentioned_languages"] = sorted(mentioned)
    return facts


def all_facts(src):
    return {c: country_facts(src, c) for c in COUNTRIES}
