"""Facts read from the source tree under test (never from a cached copy): which entry points
exist, which accounting methods each accepts, which report generators it configures and which
generation languages it ships templates and catalogs for. Read statically (AST / directory
listing) so that the harness never imports rp2 itself."""
import ast
import os

COUNTRIES = ["us", "jp", "es", "ie", "generic"]
_FALLBACK = {
    "us": {"methods": ["fifo", "hifo", "lifo", "lofo"], "default_method": "fifo", "generators": ["open_positions", "rp2_full_report", "us.tax_report_us"], "default_lang": "en"},
    "jp": {"methods": ["fifo"], "default_method": "fifo", "generators": ["open_positions", "rp2_full_report", "jp.tax_report_jp"], "default_lang": "ja"},
    "es": {"methods": ["fifo"], "default_method": "fifo", "generators": ["open_positions", "rp2_full_report"], "default_lang": "es"},
    "ie": {"methods": ["fifo"], "default_method": "fifo", "generators": ["open_positions", "rp2_full_report", "ie.tax_report_ie"], "default_lang": "en_IE"},
    "generic": {"methods": ["fifo", "hifo", "lifo", "lofo"], "default_method": "fifo", "generators": ["open_positions", "rp2_full_report"], "default_lang": "en"},
}


def _literal_return(func):
    for node in ast.walk(func):
        if isinstance(node, ast.Return) and node.value is not None:
            try:
                return ast.literal_eval(node.value)
            except Exception:  # pylint: disable=broad-except
                return None
    return None


def country_facts(src, country):
    facts = dict(_FALLBACK[country])
    path = os.path.join(src, "rp2", "plugin", "country", country + ".py")
    try:
        with open(path, encoding="utf-8") as fh:
            tree = ast.parse(fh.read())
        for node in ast.walk(tree):
            if isinstance(node, ast.FunctionDef):
                val = _literal_return(node)
                if val is None:
                    continue
                if node.name == "get_accounting_methods" and isinstance(val, (set, list, tuple)):
                    facts["methods"] = sorted(val)
                elif node.name == "get_default_accounting_method" and isinstance(val, str):
                    facts["default_method"] = val
                elif node.name == "get_report_generators" and isinstance(val, (set, list, tuple)):
                    facts["generators"] = sorted(val)
                elif node.name == "get_default_generation_language" and isinstance(val, str):
                    facts["default_lang"] = val
    except (OSError, SyntaxError):
        pass
    plug_dir = os.path.join(src, "rp2", "plugin", "accounting_method")
    try:
        plugins = {f[:-3] for f in os.listdir(plug_dir) if f.endswith(".py") and f != "__init__.py"}
        facts["methods"] = sorted(m for m in facts["methods"] if m in plugins)
    except OSError:
        pass
    # languages: template (.ods or .txt link) for every generator of the country + a message catalog
    data_dir = os.path.join(src, "rp2", "plugin", "report", "data", country)
    loc_dir = os.path.join(src, "rp2", "locales")
    langs = None
    try:
        files = os.listdir(data_dir)
    except OSError:
        files = []
    for gen in facts["generators"]:
        name = gen.rsplit(".", 1)[-1]
        prefix = "template_%s_" % name
        have = set()
        for f in files:
            if f.startswith(prefix) and (f.endswith(".ods") or f.endswith(".txt")):
                have.add(f[len(prefix):-4])
        langs = have if langs is None else (langs & have)
    langs = langs or set()
    catalogs = set()
    try:
        for d in os.listdir(loc_dir):
            if os.path.exists(os.path.join(loc_dir, d, "LC_MESSAGES", "messages.mo")):
                catalogs.add(d)
    except OSError:
        pass
    facts["languages"] = sorted(langs & catalogs)
    facts["catalogs"] = sorted(catalogs)
    # every language the tree mentions anywhere for this country (a locale directory, compiled or not; a template for any report)
    mentioned = set()
    try:
        mentioned.update(d for d in os.listdir(loc_dir) if os.path.isdir(os.path.join(loc_dir, d)))
    except OSError:
        pass
    for f in files:
        if f.startswith("template_") and (f.endswith(".ods") or f.endswith(".txt")):
            mentioned.add(f[:-4].rsplit("_", 1)[-1])
    facts["mentioned_languages"] = sorted(mentioned)
    return facts


def env_vars(src):
    """Names of the environment variables the source tree reads (os.environ.get / os.getenv / os.environ[...] / 'X' in os.environ with a
    literal name): the environment seam of the tree under test, discovered rather than assumed."""
    names = set()
    root = os.path.join(src, "rp2")
    for dirpath, _, files in os.walk(root):
        for f in files:
            if not f.endswith(".py"):
                continue
            try:
                with open(os.path.join(dirpath, f), encoding="utf-8") as fh:
                    tree = ast.parse(fh.read())
            except (OSError, SyntaxError):
                continue
            for node in ast.walk(tree):
                lit = None
                if isinstance(node, ast.Call) and node.args and isinstance(node.args[0], ast.Constant) and isinstance(node.args[0].value, str):
                    fn = node.func
                    name = fn.attr if isinstance(fn, ast.Attribute) else (fn.id if isinstance(fn, ast.Name) else "")
                    owner = ast.unparse(fn.value) if isinstance(fn, ast.Attribute) else ""
                    if name == "getenv" or (name in ("get", "pop", "setdefault") and owner.endswith("environ")):
                        lit = node.args[0].value
                elif isinstance(node, ast.Subscript) and ast.unparse(node.value).endswith("environ") and isinstance(node.slice, ast.Constant) and isinstance(node.slice.value, str):
                    lit = node.slice.value
                elif isinstance(node, ast.Compare) and isinstance(node.left, ast.Constant) and isinstance(node.left.value, str) and node.comparators and ast.unparse(node.comparators[0]).endswith("environ"):
                    lit = node.left.value
                if lit and lit.isidentifier():
                    names.add(lit)
    return sorted(names)


def helper_programs(src):
    """Names of external programs the source tree mentions: first string argument of shutil.which(...), first element of a list literal
    or first word of a string literal passed to subprocess.run/call/check_call/check_output/Popen, os.system, os.popen, os.startfile."""
    names = set()
    root = os.path.join(src, "rp2")
    for dirpath, _, files in os.walk(root):
        for f in files:
            if not f.endswith(".py"):
                continue
            try:
                with open(os.path.join(dirpath, f), encoding="utf-8") as fh:
                    tree = ast.parse(fh.read())
            except (OSError, SyntaxError):
                continue
            for node in ast.walk(tree):
                if not isinstance(node, ast.Call) or not node.args:
                    continue
                fn = node.func
                name = fn.attr if isinstance(fn, ast.Attribute) else (fn.id if isinstance(fn, ast.Name) else "")
                if name not in ("which", "run", "call", "check_call", "check_output", "Popen", "system", "popen", "startfile", "getoutput", "getstatusoutput"):
                    continue
                a = node.args[0]
                lit = None
                if isinstance(a, ast.Constant) and isinstance(a.value, str):
                    lit = a.value.strip().strip("()").split(" ")[0]
                elif isinstance(a, (ast.List, ast.Tuple)) and a.elts and isinstance(a.elts[0], ast.Constant) and isinstance(a.elts[0].value, str):
                    lit = a.elts[0].value
                if lit and "/" not in lit and lit.replace("-", "").replace("_", "").replace(".", "").isalnum():
                    names.add(lit)
    return sorted(names)


def all_facts(src):
    facts = {c: country_facts(src, c) for c in COUNTRIES}
    env = env_vars(src)
    progs = helper_programs(src)
    for c in COUNTRIES:
        facts[c]["env_vars"] = env
        facts[c]["helper_programs"] = progs
    return facts
