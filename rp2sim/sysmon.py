"""Second, independent observation seam for C18: the system calls of the simulated process, recorded with strace.

The audit hook of simchild sees what goes through CPython's own I/O, socket and process layers. Code that reaches the
kernel some other way (ctypes/libc calls, a C extension, os-level tricks the hook has no event for) is invisible to it. A
sampled share of the C18 runs is therefore executed under `strace -f -y`, and the same three invariants are evaluated on the
system-call trace: no socket of an Internet family / connect / bind / send, no execve / fork / non-thread clone, and every
successful file-system mutation inside the output directory, ./log, or a new ancestor of the output directory.

Standard library only; nothing here is used inside the simulated process."""
import os
import re
import shutil
import subprocess

from . import simchild

SYSCALLS = ("openat,open,creat,rename,renameat,renameat2,unlink,unlinkat,mkdir,mkdirat,rmdir,symlink,symlinkat,link,linkat,chmod,fchmodat,"
            "chown,lchown,fchownat,truncate,utime,utimes,utimensat,futimesat,mknod,mknodat,setxattr,lsetxattr,removexattr,lremovexattr,"
            "socket,connect,bind,sendto,sendmsg,sendmmsg,execve,execveat,clone,clone3,fork,vfork,chdir,fchdir")
WRITE_FLAGS = ("O_WRONLY", "O_RDWR", "O_CREAT", "O_TRUNC", "O_APPEND")
NET_FAMILIES = ("AF_INET", "AF_INET6", "AF_PACKET", "AF_NETLINK", "AF_BLUETOOTH", "AF_VSOCK")

_AVAILABLE = None


def available():
    """True when strace can trace a child here (ptrace may be forbidden in some sandboxes)."""
    global _AVAILABLE  # pylint: disable=global-statement
    if _AVAILABLE is None:
        exe = shutil.which("strace")
        ok = False
        if exe:
            try:
                p = subprocess.run([exe, "-f", "-y", "-qq", "-o", "/dev/null", "-e", "trace=execve", "/bin/true"], capture_output=True, check=False, timeout=20)
                ok = p.returncode == 0
            except Exception:  # pylint: disable=broad-except
                ok = False
        _AVAILABLE = exe if ok else ""
    return bool(_AVAILABLE)


def prefix(outpath):
    return [_AVAILABLE, "-f", "-y", "-qq", "-o", outpath, "-e", "trace=" + SYSCALLS]


_LINE = re.compile(r"^(\d+)\s+(.*)$")
_CALL = re.compile(r"^(\w+)\((.*)\)\s+=\s+(-?\d+|\?)(?:<([^>]*)>)?(.*)$", re.S)
_STR = re.compile(r'"((?:[^"\\]|\\.)*)"')
_DIRFD = re.compile(r"^(?:AT_FDCWD|\d+)<([^>]*)>")
_UNFINISHED = re.compile(r"^(.*) <unfinished \.\.\.>$", re.S)
_RESUMED = re.compile(r"^<\.\.\. (\w+) resumed>(.*)$", re.S)


def _unescape(s):
    try:
        return s.encode("latin-1", "backslashreplace").decode("unicode_escape").encode("latin-1", "replace").decode("utf-8", "replace")
    except Exception:  # pylint: disable=broad-except
        return s


def parse(path):
    """-> list of {pid, call, args, ret, retpath, tail} in trace order (unfinished/resumed pairs stitched)."""
    calls = []
    pending = {}
    try:
        with open(path, encoding="utf-8", errors="replace") as fh:
            lines = fh.read().splitlines()
    except OSError:
        return calls
    for ln in lines:
        m = _LINE.match(ln)
        if not m:
            continue
        pid, rest = int(m.group(1)), m.group(2)
        if rest.startswith(("---", "+++")):
            continue
        u = _UNFINISHED.match(rest)
        if u:
            pending[pid] = u.group(1)
            continue
        r = _RESUMED.match(rest)
        if r:
            rest = pending.pop(pid, r.group(1) + "(") + r.group(2)
        c = _CALL.match(rest)
        if not c:
            continue
        calls.append({"pid": pid, "call": c.group(1), "args": c.group(2), "ret": c.group(3), "retpath": c.group(4), "tail": c.group(5)})
    return calls


def _abs(base, p):
    return os.path.normpath(os.path.join(base, p))


def _entry_real(path):
    """Resolve the parent directory only: the operation acts on the directory entry itself."""
    return os.path.join(os.path.realpath(os.path.dirname(path)), os.path.basename(path))


def analyse(calls, layout, cwd, rundir, vanished=()):
    """-> (violations, counters). Violations use the classes of the C18 monitors with a 'sys:' site prefix."""
    v = []
    n = {"syscalls": len(calls), "file_mutations": 0, "net": 0, "proc": 0, "write_opens": 0}
    cwds = {}
    first_exec = True
    root_pid = calls[0]["pid"] if calls else None
    harness = os.path.realpath(rundir)
    vanished = {os.path.realpath(os.path.dirname(p)) + "/" + os.path.basename(p) for p in vanished}

    def cwd_of(pid):
        return cwds.get(pid, cwds.get(root_pid, cwd))

    def allowed(cls, call):
        if cls in ("output", "output_tmp", "log"):
            return True
        if call in ("mkdir", "mkdirat", "chmod", "fchmodat", "utimensat", "utimes", "utime", "futimesat") and cls in ("output_dir", "output_ancestor", "log_dir"):
            return True
        return False

    def check(call, real, detail):
        if real == harness or real.startswith(harness + "/"):
            return
        if real in ("/dev/null", "/dev/tty") or real.startswith(("/proc/self/", "/dev/pts/")):
            return
        cls = simchild.classify(real, layout)
        n["file_mutations"] += 1
        if not allowed(cls, call):
            if call in ("unlink", "unlinkat") and real in vanished:
                return  # removed by the fault injector itself (file vanishing between exists() and open)
            v.append({"cls": "write-outside", "site": "sys:%s:%s" % (call, cls), "detail": detail.replace(layout["world"], "$W")[:300]})

    for c in calls:
        call, args, ok = c["call"], c["args"], c["ret"] not in ("?",) and not c["ret"].startswith("-")
        pid = c["pid"]
        strs = [_unescape(s) for s in _STR.findall(args)]
        if call in ("clone", "clone3", "fork", "vfork"):
            if ok:
                try:
                    cwds[int(c["ret"])] = cwd_of(pid)
                except ValueError:
                    pass
            if call in ("fork", "vfork") or "CLONE_THREAD" not in args:
                n["proc"] += 1
                v.append({"cls": "process", "site": "sys:" + call, "detail": args[:200]})
            continue
        if call in ("execve", "execveat"):
            if first_exec:
                first_exec = False
                continue
            n["proc"] += 1
            v.append({"cls": "process", "site": "sys:" + call, "detail": args[:200]})
            continue
        if call == "chdir":
            if ok and strs:
                cwds[pid] = _abs(cwd_of(pid), strs[0])
            continue
        if call == "fchdir":
            m = _DIRFD.match(args)
            if ok and m:
                cwds[pid] = m.group(1)
            continue
        if call == "socket":
            if any(args.startswith(f + ",") or args.startswith(f) for f in NET_FAMILIES):
                n["net"] += 1
                v.append({"cls": "network", "site": "sys:socket", "detail": args[:200]})
            continue
        if call in ("connect", "bind", "sendto", "sendmsg", "sendmmsg"):
            if any(("sa_family=" + f) in args for f in NET_FAMILIES):
                n["net"] += 1
                v.append({"cls": "network", "site": "sys:" + call, "detail": args[:200]})
            continue
        if not ok:
            continue
        base = cwd_of(pid)
        m = _DIRFD.match(args)
        if m:
            base = m.group(1)
        if call in ("openat", "open", "creat"):
            flags = args
            if call != "creat" and not any(f in flags for f in WRITE_FLAGS):
                continue
            n["write_opens"] += 1
            real = c["retpath"] or (os.path.realpath(_abs(base, strs[0])) if strs else "?")
            if real.endswith(" (deleted)"):
                real = real[: -len(" (deleted)")]
            check(call, real, "%s(%s)" % (call, args))
        elif call in ("rename", "renameat", "renameat2", "link", "linkat", "symlink", "symlinkat"):
            # both names for rename/link; only the new name for symlink (the first string is the link's content)
            names = strs[-1:] if call.startswith("symlink") else strs[:2]
            bases = [base, base]
            if call in ("renameat", "renameat2", "linkat"):
                # two dirfds: the second one follows the first path argument
                parts = re.findall(r"(?:AT_FDCWD|\d+)<([^>]*)>", args)
                if len(parts) >= 2:
                    bases = [parts[0], parts[1]]
            for b, s in zip(bases, names):
                check(call, _entry_real(_abs(b, s)), "%s(%s)" % (call, args))
        elif strs:
            p = _abs(base, strs[0])
            entry = call in ("unlink", "unlinkat", "mkdir", "mkdirat", "rmdir", "mknod", "mknodat", "lchown", "lsetxattr", "lremovexattr")
            check(call, _entry_real(p) if entry else os.path.realpath(p), "%s(%s)" % (call, args))
    return v, n
