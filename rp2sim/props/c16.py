"""C16 - every supported option combination runs to completion on every valid input.

Fault-free arm of the simulation: valid world x option matrix x benign host variation x benign
pre-existing directory state. Bounded-liveness oracle at the process boundary: the run ends
within the time budget with status 0 and every configured report is in place, readable, and was
put there by this run."""
import random

from .. import core, gen, runner, tree
from .. import world as W

PROP = "C16"
LEVEL = "exploration"
CASES = {"quick": 1500, "thorough": 30000}
WALL_CAP = {"quick": 1500, "thorough": 4 * 3600}
RULE = ("one case = one generated valid world (validity model) x one option tuple drawn from what the tree ships "
        "(entry point, -m / [accounting_methods] schedule, -g, -f/-t, -n, -a, -p, -o, path style) x one benign host "
        "(clock epoch/tick/jumps, TZ, locale, LOG_LEVEL, profiler, hash seed, ASLR) x benign directory pre-state, "
        "executed as one fresh interpreter. distinct = distinct run signature (entry point, option shape, host "
        "perturbation set, pre-state kinds, world shape flags, outcome class, file-system trace); non-trivial = at least one "
        "non-default option or one host perturbation or one pre-state item was in effect")


PROBES = ["stale_report_replaced", "mkdir_p_output", "single_entry_schedule", "asset_income_only", "asset_fully_sold", "has_lost", "in_crypto_fee", "empty_window",
          "midyear_from", "large_table", "huge_world", "six_assets", "whale_amounts", "generators_configured", "dust_balance_left", "skewed_large_world", "expense_fractions_over_120", "neg_balances_allowed", "equal_instants_in_world", "tie_transfer_funds_disposal", "tie_buy_and_sell"]


def make_case(seed, facts, index=0, weights=None):
    """weights: optional {swarm flag: probability} overriding the default swarm probabilities (used by C17, whose relations are most
    sensitive to cross-asset and ranking shapes); the draw order is unaffected."""
    rng = random.Random(seed)
    swarm = {
        "optional_cols": rng.random() < 0.5,
        "permute": rng.random() < 0.8,
        "shapes": rng.random() < 0.85,
        "micro": rng.random() < 0.3,
        "mixed_tz": rng.random() < 0.8,
        "need_uid": rng.random() < 0.7,
        "ts_styles": rng.choice([["space"], ["space"], ["space", "T"], ["space", "Z", "nocolon", "T"], ["slash"], ["space", "slash"]]),
        "clock": rng.random() < 0.8,
        "env": rng.random() < 0.8,
        "hash": rng.random() < 0.8,
        "schedule": rng.random() < 0.8,
        "window": rng.random() < 0.85,
        "ties": rng.random() < 0.15,
        "few_prices": rng.random() < 0.3,
        "confusable": rng.random() < 0.12,
        "whales": rng.random() < 0.1,
        "shared_instants": rng.random() < 0.25,
        "huge": rng.random() < 0.004,
        "dust": rng.random() < 0.1,
        "new_year_start": rng.random() < 0.08,
        "tight": rng.random() < 0.15,
    }
    for flag, prob in sorted((weights or {}).items()):
        swarm[flag] = rng.random() < prob
    if rng.random() < 0.04:
        swarm["n_rows"] = rng.choice([60, 120, 200])
        swarm["n_assets"] = 1
    if swarm["huge"]:
        # huge: a couple of thousand rows over two or three assets (size thresholds of "fast paths", buffers that spill, pools that start)
        swarm["n_rows"] = rng.choice([900, 1100])
        swarm["n_assets"] = rng.choice([2, 3])
        swarm["shapes"] = False
    if rng.random() < 0.05:
        # large and skewed: many rows concentrated on the transaction types that share one sheet / one summary line of a report
        # (template row budgets, per-type tables and per-year lists are sized per type group, not per input)
        swarm["n_rows"] = rng.choice([150, 300, 450])
        swarm["n_assets"] = rng.choice([1, 1, 2])
        swarm["shapes"] = False
        kind = rng.choice(["expenses", "expenses", "sales", "gifts", "donations", "income", "one_income", "transfers", "buys"])
        swarm["skew"] = kind
        if kind == "expenses":
            swarm["out_focus"], swarm["mix"] = rng.choice([["FEE"], ["LOST"], ["FEE", "LOST"]]), (0.25, 0.92)
        elif kind == "sales":
            swarm["out_focus"], swarm["mix"] = ["SELL"], (0.3, 0.97)
        elif kind == "gifts":
            swarm["out_focus"], swarm["mix"] = ["GIFT"], (0.3, 0.97)
        elif kind == "donations":
            swarm["out_focus"], swarm["mix"] = ["DONATE"], (0.3, 0.97)
        elif kind == "income":
            swarm["in_focus"], swarm["mix"] = list(W.EARN_TYPES), (0.8, 0.95)
        elif kind == "one_income":
            swarm["in_focus"], swarm["mix"] = [rng.choice(W.EARN_TYPES)], (0.85, 0.97)
        elif kind == "transfers":
            swarm["mix"] = (0.2, 0.3)
        else:
            swarm["in_focus"], swarm["mix"] = ["BUY"], (0.9, 0.97)
    country = rng.choice(tree.COUNTRIES)
    neg = rng.random() < 0.12
    if neg and rng.random() < 0.6:
        swarm["n_holders"] = rng.choice([2, 3])
        swarm["holder_per_asset"] = rng.random() < 0.6
        swarm["n_assets"] = rng.choice([2, 2, 3])
    world = None
    for _ in range(50):
        world = W.gen_world(rng, swarm, country)
        if neg:
            _overdraw(rng, world)
        ok, _ = W.validate(world, allow_negative=neg)
        if ok:
            break
    else:
        raise runner.HarnessError("could not generate a valid world for seed %d" % seed)
    opts = gen.gen_options(rng, world, country, facts[country], swarm, allow_neg=neg)
    if opts["asset"] and opts["asset"] not in [s["name"] for s in world["sheets"]]:
        opts["asset"] = None
    host = gen.gen_host(rng, swarm)
    host["extra_env"] = gen.gen_extra_env(rng, facts[country])
    host["helper_programs"] = list(facts[country].get("helper_programs") or [])
    prestate = gen.gen_prestate(rng, opts)
    return {"property": PROP, "seed": seed, "index": index, "swarm": swarm, "world": world, "opts": opts, "host": host,
            "prestate": prestate, "readonly_inputs": rng.random() < 0.15}


def _overdraw(rng, world):
    """Relabel one disposal to another account: accounts may go negative, global coverage stays."""
    accounts = [(e, h) for e in world["exchanges"] for h in world["holders"]]
    outs = [r for _, t, r in W.all_rows(world) if t == "OUT"]
    if len(accounts) < 2 or not outs:
        return
    r = rng.choice(outs)
    if rng.random() < 0.6:
        # the closing disposal of an asset booked on somebody else's account: the asset is sold out as a whole while one holder's account
        # stays positive and another's goes negative (joint filers who sell from whichever account is at hand)
        by_asset = {}
        for a, t, row in W.all_rows(world):
            if t == "OUT":
                by_asset.setdefault(a, []).append(row)
        a = rng.choice(sorted(by_asset))
        r = max(by_asset[a], key=lambda row: W.parse_ts(row["timestamp"]))
    others = [a for a in accounts if a != (r["exchange"], r["holder"])]
    other_holder = [a for a in others if a[1] != r["holder"]]
    r["exchange"], r["holder"] = rng.choice(other_holder if other_holder and rng.random() < 0.7 else others)


def valid_case(case):
    ok, _ = W.validate(case["world"], allow_negative=case["opts"].get("neg", False))
    if not ok:
        return False
    o = case["opts"]
    names = [s["name"] for s in case["world"]["sheets"]]
    if o.get("asset") and o["asset"] not in names:
        return False
    if o.get("from") and o.get("to") and o["from"] > o["to"]:
        return False
    if case["world"].get("methods"):
        if o.get("method"):
            return False
        years = W.local_years(case["world"])
        if years and min(y for y, _ in case["world"]["methods"]) > years[0]:
            return False  # the schedule must cover the (wall-clock) year of the first transaction
    return True


def check_run(case, res, facts):
    """The C16 oracle on one recorded run -> list of violations."""
    opts = case["opts"]
    v = []
    if res["timed_out"]:
        return [{"cls": "liveness-timeout", "site": "-", "detail": "no exit within %ss" % res.get("budget_s", runner.RUN_TIMEOUT)}]
    if res["rc"] != 0:
        exc, site, msg = core.failure_site(res)
        return [{"cls": "exit-%s" % res["rc"], "site": "%s:%s" % (site, exc), "detail": msg}]
    if "Fatal exception occurred" in core.all_text(res) or "Traceback (most recent call last)" in res["stderr"]:
        exc, site, msg = core.failure_site(res)
        return [{"cls": "fatal-error-but-exit-0", "site": "%s:%s" % (site, exc), "detail": msg}]
    out_rel = core.rel_world(res, res["layout"]["output_dir"])
    placed = set()
    for e in core.events(res):
        if e["ev"] == "os.rename":
            placed.add(e["targets"][-1]["real"])
        elif e["ev"] == "open" and e["w"] and e["cls"] == "output":
            placed.add(e["real"])
    prefix = opts.get("prefix") or ""
    for g in (case["world"].get("generators") or facts[opts["country"]]["generators"]):  # the configured reports, else the entry point's defaults
        short = core.generator_short(g)
        cands = [n for n in res["reports"] if n.startswith(prefix) and short in n]
        good = None
        for n in cands:
            info = res["reports"][n]
            path = res["layout"]["output_dir"] + "/" + n
            if info.get("zip_ok") and info.get("content_ok") and path in placed and "spreadsheet" in info.get("mimetype", ""):
                good = n
        if good is None:
            v.append({"cls": "report-missing", "site": short, "detail": "exit 0 but no readable %s report written by this run in %s (have %s)" % (short, out_rel, sorted(res["reports"]))})
    return v


def exec_case(case, facts, src=None):
    world, opts = case["world"], dict(case["opts"])
    w, files = core.layout_case("c16", world, opts, case.get("prestate"), readonly_inputs=case.get("readonly_inputs", False))
    try:
        res = runner.run(w, files, opts, host=case["host"], src=src)
        if res["timed_out"]:
            res = runner.run(w, files, opts, host=case["host"], src=src)  # once more, alone in this worker
        violations = check_run(case, res, facts)
        nondefault = [k for k in ("method", "lang", "from", "to", "neg", "asset", "prefix") if opts.get(k)]
        if world.get("methods"):
            nondefault.append("schedule%d" % len(world["methods"]))
        pert = core.host_perturbations(case["host"])
        shape = sorted({k for s in [case["swarm"]] for k in ("optional_cols", "permute", "micro") if s.get(k)})
        trace = core.fs_trace(res)
        clock = (res.get("child") or {}).get("clock") or {}
        sig = (opts["country"], tuple(nondefault), tuple(pert), tuple(sorted(set(case.get("prestate") or []))), tuple(shape),
               "ok" if not violations else violations[0]["cls"] + "@" + violations[0]["site"], tuple(trace))
        stats = {"runs": 1, "country:" + opts["country"]: 1, "rows": sum(1 for _ in W.all_rows(world))}
        for k in nondefault or ["defaults"]:
            stats["opt:" + k] = 1
        mkind = ("schedule%d" % len(world["methods"])) if world.get("methods") else ("-m " + opts["method"] if opts.get("method") else "default-method")
        wkind = ("from+to" if opts.get("from") and opts.get("to") else ("from" if opts.get("from") else ("to" if opts.get("to") else "no-window")))
        stats["matrix:%s/%s/%s/%s" % (opts["country"], mkind, "-g " + opts["lang"] if opts.get("lang") else "default-language", wkind)] = 1
        del clock
        for p in pert:
            stats["pert:" + p] = 1
        for k in case.get("prestate") or []:
            stats["prestate:" + k] = 1
        stats.update(_probes(case, res))
        return {"violations": violations, "signature": repr(sig), "nontrivial": bool(nondefault or pert or case.get("prestate")),
                "stats": stats, "sample": _sample(case, res, violations)}
    finally:
        w.cleanup()


def _span(host, clock):
    reads = clock.get("reads", 0)
    span = reads * host.get("tick_ns", 0)
    for at, d in host.get("jumps") or []:
        if at <= reads:
            span += abs(d)
    return span / 1e9


def _probes(case, res):
    world, opts = case["world"], case["opts"]
    p = {}
    ev = core.events(res)
    if any(e["ev"] == "os.remove" and e["targets"][0]["cls"] == "output" for e in ev):
        p["probe:stale_report_replaced"] = 1
    if any(e["ev"] == "os.mkdir" and e["targets"][0]["cls"] == "output_ancestor" for e in ev):
        p["probe:mkdir_p_output"] = 1
    if world.get("methods") and len(world["methods"]) == 1:
        p["probe:single_entry_schedule"] = 1
    names = {s["name"]: s for s in world["sheets"]}
    for s in world["sheets"]:
        rows = {t["type"]: t["rows"] for t in s["tables"]}
        if not rows.get("OUT") and not rows.get("INTRA") and all(r["transaction_type"] in W.EARN_TYPES for r in rows.get("IN", [])):
            p["probe:asset_income_only"] = 1
        bal = 0
        for t, rs in rows.items():
            for r in rs:
                if t == "IN":
                    bal += W.D(r["crypto_in"]) - W.D(r.get("crypto_fee") or 0)
                elif t == "OUT":
                    bal -= W.D(r["crypto_out_no_fee"]) + W.D(r["crypto_fee"])
                else:
                    bal -= W.D(r["crypto_sent"]) - W.D(r["crypto_received"])
        if bal == 0 and rows.get("OUT"):
            p["probe:asset_fully_sold"] = 1
        if any(r["transaction_type"] == "LOST" for r in rows.get("OUT", [])):
            p["probe:has_lost"] = 1
        if any(r.get("crypto_fee") for r in rows.get("IN", [])):
            p["probe:in_crypto_fee"] = 1
    del names
    if opts.get("from") or opts.get("to"):
        import datetime as dt  # pylint: disable=import-outside-toplevel

        lo = dt.date.fromisoformat(opts["from"]) if opts.get("from") else dt.date.min
        hi = dt.date.fromisoformat(opts["to"]) if opts.get("to") else dt.date.max
        inside = [1 for _, _, r in W.all_rows(world) if lo <= W.parse_ts(r["timestamp"]).date() <= hi]
        if not inside:
            p["probe:empty_window"] = 1
        if opts.get("from") and not opts["from"].endswith("-01-01"):
            p["probe:midyear_from"] = 1
    for s in world["sheets"]:
        inst = [W.parse_ts(r["timestamp"]).astimezone(W.UTC) for t in s["tables"] for r in t["rows"]]
        if len(set(inst)) != len(inst):
            p["probe:equal_instants_in_world"] = 1
            by = {}
            for t in s["tables"]:
                for r in t["rows"]:
                    by.setdefault(W.parse_ts(r["timestamp"]).astimezone(W.UTC), []).append((t["type"], r))
            for group in by.values():
                kinds = {k for k, _ in group}
                if "INTRA" in kinds and "OUT" in kinds:
                    for k, r in group:
                        if k == "INTRA" and any(k2 == "OUT" and (r2["exchange"], r2["holder"]) == (r["to_exchange"], r["to_holder"]) for k2, r2 in group):
                            p["probe:tie_transfer_funds_disposal"] = 1
                if "IN" in kinds and "OUT" in kinds:
                    p["probe:tie_buy_and_sell"] = 1
    if sum(1 for _ in W.all_rows(world)) >= 60:
        p["probe:large_table"] = 1
    if sum(1 for _ in W.all_rows(world)) >= 1800:
        p["probe:huge_world"] = 1
    if len(world["sheets"]) >= 5:
        p["probe:six_assets"] = 1
    if any(W.D(r.get("crypto_in") or 0) >= 10**9 for _, t, r in W.all_rows(world) if t == "IN"):
        p["probe:whale_amounts"] = 1
    if world.get("generators"):
        p["probe:generators_configured"] = 1
    if case["swarm"].get("dust"):
        p["probe:dust_balance_left"] = 1
    if case["swarm"].get("skew"):
        p["probe:skewed_large_world"] = 1
        p["skew:" + case["swarm"]["skew"]] = 1
    if sum(1 for _, t, r in W.all_rows(world) if t == "OUT" and r["transaction_type"] in ("FEE", "LOST")) > 120:
        p["probe:expense_fractions_over_120"] = 1
    if opts.get("neg"):
        p["probe:neg_balances_allowed"] = 1
    return p


def _sample(case, res, violations):
    return {"seed": case["seed"], "argv": res["argv"], "env": {k: v for k, v in res["cmd_env"].items() if k in ("TZ", "LANG", "LANGUAGE", "LOG_LEVEL", "PYTHONHASHSEED", "RP2SIM_EPOCH_NS", "RP2SIM_TICK_NS", "RP2SIM_JUMPS")},
            "assets": {s["name"]: {t["type"]: len(t["rows"]) for t in s["tables"]} for s in case["world"]["sheets"]},
            "methods": case["world"].get("methods"), "prestate": case.get("prestate"), "exit": res["rc"],
            "reports": sorted(res["reports"]), "violations": violations}


def reduce_candidates(case):
    """Smaller variants of a case (delta debugging moves), most aggressive first."""
    from ..minimize import world_reductions  # pylint: disable=import-outside-toplevel

    c = case
    if c.get("prestate"):
        yield dict(c, prestate=[])
    if c.get("readonly_inputs"):
        yield dict(c, readonly_inputs=False)
    if c["host"] != gen.BASE_HOST:
        yield dict(c, host=dict(gen.BASE_HOST))
        for k, v in gen.BASE_HOST.items():
            if c["host"].get(k) != v:
                yield dict(c, host=dict(c["host"], **{k: v}))
    o = c["opts"]
    for k, dflt in (("asset", None), ("prefix", ""), ("lang", None), ("from", None), ("to", None), ("method", None), ("outdir", "out"),
                    ("path_style", "rel"), ("files_in", "")):
        if o.get(k) != dflt:
            yield dict(c, opts=dict(o, **{k: dflt}))
    if c["world"].get("generators"):
        w2 = W.clone(c["world"])
        w2["generators"] = None
        yield dict(c, world=w2)
    if c["world"].get("methods"):
        w2 = W.clone(c["world"])
        w2["methods"] = None
        yield dict(c, world=w2)
        if len(c["world"]["methods"]) > 1:
            for i in range(len(c["world"]["methods"])):
                w2 = W.clone(c["world"])
                del w2["methods"][i]
                yield dict(c, world=w2)
    for w2 in world_reductions(c["world"]):
        yield dict(c, world=w2)


MATRIX_WORLDS = {"quick": 1, "thorough": 4}


def extra_phase(tier, master, facts, src, log):
    """The option matrix of the property, enumerated: every entry point x {default method, each -m it accepts, a one-entry and a
    two-entry [accounting_methods] schedule} x {default language, each -g it ships} x {no window, -f, -t, -f and -t (not for jp)} on
    fixed multi-asset worlds, under the baseline host. The sampled cases cover the matrix only as far as the dice fall."""
    import os  # pylint: disable=import-outside-toplevel

    from .. import engine  # pylint: disable=import-outside-toplevel

    n_worlds = int(os.environ.get("RP2SIM_MATRIX_WORLDS", "0")) or MATRIX_WORLDS[tier]
    cases = []
    cells = 0
    for k in range(n_worlds):
        for ci, country in enumerate(tree.COUNTRIES):
            rng = random.Random(gen.case_seed(master, PROP + "-matrix", k * 10 + ci))
            swarm = {"optional_cols": k % 2 == 0, "permute": True, "shapes": True, "mixed_tz": True, "need_uid": True, "n_assets": 2 + k % 2, "n_rows": rng.choice([6, 10, 16]),
                     "few_prices": k % 2 == 1, "micro": k % 3 == 0}
            world = None
            for _ in range(50):
                world = W.gen_world(rng, swarm, country)
                if W.validate(world)[0]:
                    break
            fc = facts[country]
            years = W.local_years(world)
            methods = [("default", None, None)] + [("-m " + m, m, None) for m in fc["methods"]]
            methods.append(("schedule1", None, [[max(1970, years[0] - 1), fc["methods"][-1]]]))
            methods.append(("schedule2", None, [[max(1970, years[0] - 3), fc["default_method"]], [years[0] + 1, fc["methods"][-1]]]))
            langs = [None] + list(fc["languages"])
            dates = sorted({W.parse_ts(r["timestamp"]).date() for _, _, r in W.all_rows(world)})
            mid = dates[len(dates) // 2]
            windows = [("none", None, None), ("from", mid.isoformat(), None), ("to", None, mid.isoformat())]
            if country != "jp":
                windows.append(("both", dates[0].isoformat(), mid.isoformat()))
            for mname, m, sched in methods:
                for lang in langs:
                    for wname, f, t in windows:
                        w2 = W.clone(world)
                        w2["methods"] = sched
                        opts = {"country": country, "method": m, "lang": lang, "from": f, "to": t, "neg": False, "asset": None, "prefix": "", "outdir": "out",
                                "path_style": "rel", "files_in": "", "env": {"CURRENCY_CODE": "usd", "LONG_TERM_CAPITAL_GAINS": "365"} if country == "generic" else {}}
                        cells += 1
                        cases.append({"property": PROP, "seed": gen.case_seed(master, PROP + "-matrix", k * 10 + ci), "index": 3 * 10**9 + len(cases), "swarm": swarm, "world": w2,
                                      "opts": opts, "host": dict(gen.BASE_HOST), "prestate": [], "readonly_inputs": False, "matrix_cell": "%s/%s/%s/%s" % (country, mname, lang or "default-language", wname)})
    outs = engine.run_cases(PROP, cases, src=src)
    for c, o in zip(cases, outs):
        if "stats" in o:
            o["stats"]["matrix_sweep_runs"] = 1
            o["stats"]["sweepcell:" + c["matrix_cell"]] = 1
    hit = len({c["matrix_cell"] for c in cases})
    log("C16 option-matrix sweep: %d worlds x 5 entry points, %d runs, %d distinct (entry point, method, language, window) cells" % (n_worlds, cells, hit))
    return outs, {"coverage": {"option_matrix_enumerated": {"worlds_per_entry_point": n_worlds, "runs": cells, "distinct_cells": hit,
                                                            "dimensions": "entry point x {default, each -m, schedule of 1, schedule of 2} x {default language, each shipped -g} x {none, from, to, from+to (not jp)}; every default report generator of the entry point runs in each cell"}}}
