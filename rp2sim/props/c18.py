"""C18 - no network, no subprocess, writes confined to the output and log directories.

Every I/O, network, process and import action of the simulated process goes through the
simulator's audit seam. Workload: fault-free runs over the option matrix, input-faulted runs
(the C12 fault classes: error and fallback paths), I/O-faulted runs (EIO/short read on inputs and
templates, ENOSPC/EIO mid-save, EACCES/EROFS on directories and stale reports, files vanishing
between exists() and open) and crash-restart histories (kill -9 at an I/O step, then a second run
on the surviving directory). Monitors are evaluated on the event log and on before/after
listings of the whole simulated world. One extra run imports every module of the rp2 package
under the hook (import seam); an AST walk over the source is the non-simulation auxiliary for
the 'statically, for every module' clause."""
import ast
import os
import random

from .. import core, faults, gen, runner, tree
from .. import world as W
from . import c16

PROP = "C18"
LEVEL = "exploration"
CASES = {"quick": 900, "thorough": 20000}
WALL_CAP = {"quick": 1500, "thorough": 5 * 3600}
RULE = ("one case = one generated valid world + option tuple + simulated host executed in one of four modes: clean (fault-free), "
        "input_fault (one C12 fault), io_fault (one injected I/O error: open/read/write/rename/remove/mkdir/vanish on config, "
        "spreadsheet, template, report temp file, stale report, output dir, log dir), crash_history (process killed at a random I/O "
        "step, then re-run on the surviving directory); monitors on every run. distinct = distinct (mode, entry point, fault/crash "
        "descriptor, outcome class, file-system trace); non-trivial = mode is not clean, or a non-default option / host perturbation / "
        "pre-state item was in effect")
ASSUMPTIONS = [
    "actions are observed through CPython audit events (open, os.*, socket.*, subprocess.*, import) plus before/after listings of the whole simulated world; a C extension writing outside the world without an audit event would be invisible",
    "the 'statically for every module' clause cannot be decided by running code: it is covered by the auxiliary AST walk reported under coverage.static_lint",
]
PROBES = ["io_fault_fired", "crash_fired", "torn_tmp_left_behind", "second_run_after_crash", "input_fault_error_path", "stale_report_unlink_faulted",
          "enospc_mid_save", "vanish_fired", "log_dir_fault_fired", "walk_packages_run", "syscall_monitored_run", "io_fault_sequence_fired", "double_crash_fired", "crash_point_sweep", "interrupt_fired"]

STRACE_SHARE = 0.25
WEIGHTS = {"huge": 0.012}  # size thresholds (pools that start, buffers that spill) are where a program begins to fork or to write elsewhere
CRASH_WORLDS = {"quick": 1, "thorough": 8}
NETWORK_MODULES = {"socket", "socketserver", "ssl", "http.client", "http.server", "urllib.request", "urllib3", "requests", "httpx", "aiohttp",
                   "ftplib", "smtplib", "poplib", "imaplib", "telnetlib", "nntplib", "xmlrpc", "xmlrpc.client", "xmlrpc.server", "websocket",
                   "websockets", "http.cookiejar", "urllib.robotparser", "pycurl", "paramiko", "grpc", "asyncio.streams"}
INFO_MODULES = {"subprocess", "multiprocessing", "asyncio", "ctypes", "webbrowser"}
INSIDE = {"output", "output_tmp", "log"}
ALLOWED_MUTATION = {
    "open": INSIDE,
    "os.mkdir": INSIDE | {"output_dir", "output_ancestor", "log_dir"},
    "os.chmod": INSIDE | {"output_dir", "log_dir"},
    "os.utime": INSIDE | {"output_dir", "log_dir"},
}

IO_FAULTS = [
    {"op": "open", "cls": "config", "mode": "r", "errno": "EACCES"}, {"op": "open", "cls": "config", "mode": "r", "errno": "EIO", "nth": 2},
    {"op": "open", "cls": "input", "mode": "r", "errno": "EIO"}, {"op": "open", "cls": "input", "mode": "r", "errno": "EMFILE", "nth": 3},
    {"op": "open", "cls": "template", "mode": "r", "errno": "EIO"}, {"op": "open", "cls": "template", "mode": "r", "errno": "EACCES", "nth": 4},
    {"op": "open", "cls": "output_tmp", "mode": "w", "errno": "ENOSPC"}, {"op": "open", "cls": "output_tmp", "mode": "w", "errno": "EACCES", "nth": 2},
    {"op": "open", "cls": "output_tmp", "mode": "w", "errno": "EROFS", "nth": 3},
    {"op": "open", "cls": "log", "mode": "w", "errno": "EACCES"}, {"op": "open", "cls": "log", "mode": "w", "errno": "ENOSPC"},
    {"op": "read", "cls": "config", "errno": "EIO", "after_bytes": 40}, {"op": "read", "cls": "config", "errno": "EOF", "after_bytes": 60},
    {"op": "read", "cls": "input", "errno": "EIO", "after_bytes": 300}, {"op": "read", "cls": "input", "errno": "EOF", "after_bytes": 500},
    {"op": "read", "cls": "template", "errno": "EIO", "after_bytes": 2000}, {"op": "read", "cls": "template", "errno": "EOF", "after_bytes": 3000, "nth": 3},
    {"op": "write", "cls": "output_tmp", "errno": "ENOSPC", "after_bytes": 0}, {"op": "write", "cls": "output_tmp", "errno": "ENOSPC", "after_bytes": 5000},
    {"op": "write", "cls": "output_tmp", "errno": "EIO", "after_bytes": 20000, "nth": 2}, {"op": "write", "cls": "output_tmp", "errno": "EDQUOT", "after_bytes": 100, "nth": 3},
    {"op": "write", "cls": "log", "errno": "ENOSPC", "after_bytes": 200},
    {"op": "rename", "cls": "output", "errno": "EACCES"}, {"op": "rename", "cls": "output", "errno": "ENOSPC", "nth": 2}, {"op": "rename", "cls": "output", "errno": "EXDEV", "nth": 3},
    {"op": "remove", "cls": "output", "errno": "EACCES"}, {"op": "remove", "cls": "output", "errno": "EPERM"},
    {"op": "mkdir", "cls": "output_dir", "errno": "EACCES"}, {"op": "mkdir", "cls": "output_dir", "errno": "EROFS"}, {"op": "mkdir", "cls": "output_ancestor", "errno": "ENOSPC"},
    {"op": "mkdir", "cls": "log_dir", "errno": "EACCES"}, {"op": "mkdir", "cls": "log_dir", "errno": "EROFS"},
    {"op": "vanish", "cls": "input", "mode": "r"}, {"op": "vanish", "cls": "config", "mode": "r"}, {"op": "vanish", "cls": "config", "mode": "r", "nth": 2},
    {"op": "vanish", "cls": "input", "mode": "r", "nth": 5},
]


def make_case(seed, facts, index=0):
    rng = random.Random(seed)
    base = c16.make_case(rng.randint(0, 2**62), facts, index, weights=WEIGHTS)
    base["property"] = PROP
    base["seed"] = seed
    mode = rng.choice(["clean", "clean", "input_fault", "input_fault", "io_fault", "io_fault", "io_fault", "crash_history", "crash_history", "interrupt_history"])
    base["mode"] = mode
    if mode == "input_fault":
        from .c12 import _choose_faults  # pylint: disable=import-outside-toplevel

        base["fault"] = _choose_faults(rng, base["world"], base["opts"], facts, 1)[0][0]  # class-balanced, as in C12
        if rng.random() < 0.3:
            base["fault"] = rng.choice(faults.enumerate_oddities(base["world"], base["opts"], facts))  # inputs of debatable validity: tolerance / repair paths
    elif mode == "io_fault":
        f = dict(rng.choice(IO_FAULTS))
        if "after_bytes" in f and rng.random() < 0.5:
            f["after_bytes"] = rng.choice([0, 1, 17, 512, 4096, 9000, 30000])
        if rng.random() < 0.3:
            f["nth"] = rng.randint(1, 4)
        base["io_fault"] = f
        if f["op"] == "remove" or rng.random() < 0.3:
            base["prestate"] = ["stale_report", "readonly_stale", "stale_report"]
        if f["cls"] == "template":
            pass
    elif mode in ("crash_history", "interrupt_history"):
        base["crash_at"] = rng.randint(1, 90)  # for interrupt_history: the I/O step at which Ctrl-C (KeyboardInterrupt) arrives
    # fault *sequences*: a second and third I/O fault in the same run; a second crash during the restart, then a third run
    if mode == "io_fault" and rng.random() < 0.3:
        more = []
        for _ in range(rng.choice([1, 1, 2])):
            f2 = dict(rng.choice(IO_FAULTS))
            if rng.random() < 0.5:
                f2["nth"] = rng.randint(1, 4)
            more.append(f2)
        base["io_faults_more"] = more
    if mode == "crash_history" and rng.random() < 0.3:
        base["crash_at2"] = rng.randint(1, 90)
    if (base["swarm"].get("n_rows") or 0) >= 60 and rng.random() < 0.5:
        base["host"]["LOG_LEVEL"] = "DEBUG"  # size-dependent behaviour of the verbose paths (dumps, spill files) needs both a large input and the switch
    # a share of the runs is also observed at the system-call level (strace), independently of the audit hook
    base["strace"] = rng.random() < STRACE_SHARE
    return base


def _sys_monitor(res, stats, tag=""):
    """Violations seen by the system-call monitor of a run executed under strace (empty when the run was not traced)."""
    sysm = res.get("sys")
    if not sysm:
        return []
    if sysm.get("unavailable"):
        stats["syscall_monitor_unavailable"] = stats.get("syscall_monitor_unavailable", 0) + 1
        return []
    stats["probe:syscall_monitored_run"] = 1
    stats["syscall_monitored_runs"] = stats.get("syscall_monitored_runs", 0) + 1
    for k, n in sysm["counters"].items():
        stats["sys_" + k] = stats.get("sys_" + k, 0) + n
    return [dict(x, detail=tag + x["detail"]) for x in sysm["violations"]]


def valid_case(case):
    if case.get("mode") == "input_fault":
        from .c12 import _fault_applicable  # pylint: disable=import-outside-toplevel

        if not _fault_applicable(case["world"], case["fault"]):
            return False
    return c16.valid_case(case)


def monitors(res, inputs_exist=True):
    """The C18 invariants on one recorded run -> violations."""
    v = []
    lay = res["layout"]
    for e in core.events(res):
        ev = e["ev"]
        if ev == "net":
            if e["name"] in ("socket.connect", "socket.bind", "socket.sendto", "socket.sendmsg") and e.get("family") == 1:
                continue  # AF_UNIX: local IPC, not a network connection (recorded and refused all the same)
            v.append({"cls": "network", "site": e["name"], "detail": str(e.get("detail"))})
        elif ev == "proc":
            v.append({"cls": "process", "site": e["name"], "detail": str(e.get("detail"))})
        elif ev == "open" and e["w"]:
            if e.get("real") in ("/dev/null", "/dev/tty") or str(e.get("real", "")).startswith("/dev/pts/"):
                continue  # not a file: nothing is created or modified
            if e["cls"] not in ALLOWED_MUTATION["open"]:
                v.append({"cls": "write-outside", "site": "open:%s" % e["cls"], "detail": core.normalise_text(e["path"], res)})
        elif ev.startswith("os.") and "targets" in e:
            allowed = ALLOWED_MUTATION.get(ev, INSIDE)
            for t in e["targets"]:
                if t["cls"] not in allowed:
                    v.append({"cls": "write-outside", "site": "%s:%s" % (ev[3:], t["cls"]), "detail": core.normalise_text(t["path"], res)})
    # listing of the whole simulated world: only the output directory (and its new ancestors) and ./log may change
    out_rel = core.rel_world(res, lay["output_dir"])
    log_rel = core.rel_world(res, lay["log_dir"])
    vanished = {core.rel_world(res, os.path.realpath(f["path"])) for f in ((res.get("child") or {}).get("faults") or []) if f["fault"] == "vanish"}
    for p, kind in sorted(core.snapshot_diff(res).items()):
        if kind == "deleted" and p in vanished:
            continue  # removed by the simulator itself (file vanishing between exists() and open), not by the program
        is_input = p in (core.rel_world(res, lay["config"] or "/x"), core.rel_world(res, lay["input"] or "/x"))
        if not is_input and (p == out_rel or p.startswith(out_rel + os.sep) or p == log_rel or p.startswith(log_rel + os.sep)):
            continue
        if kind == "created" and out_rel.startswith(p + os.sep) and res["after"][p][0] == "d":
            continue
        cls = "input-modified" if is_input else "write-outside"
        v.append({"cls": cls, "site": "listing:%s" % kind, "detail": p})
    del inputs_exist
    return v


def import_monitor(res):
    v = []
    info = []
    for importer, name in (res.get("child") or {}).get("imports") or []:
        top = name
        hit = name in NETWORK_MODULES or any(name.startswith(m + ".") for m in NETWORK_MODULES)
        if not hit:
            if name in INFO_MODULES and importer and (importer == "rp2" or importer.startswith("rp2.")):
                info.append([importer, name])
            continue
        if importer and (importer == "rp2" or importer.startswith("rp2.")):
            v.append({"cls": "network-import", "site": "%s->%s" % (importer, top), "detail": "rp2 module imports a networking facility"})
        else:
            info.append([importer, name])
    return v, info


def static_lint(src):
    """Auxiliary (not simulation): AST walk of every file under src/rp2 for imports of networking modules at any depth."""
    hits = []
    files = 0
    root = os.path.join(src, "rp2")
    for dirpath, _, names in os.walk(root):
        for n in sorted(names):
            if not n.endswith(".py"):
                continue
            files += 1
            path = os.path.join(dirpath, n)
            try:
                with open(path, encoding="utf-8") as fh:
                    tree_ = ast.parse(fh.read())
            except (OSError, SyntaxError) as exc:
                hits.append((os.path.relpath(path, src), "unparsable: %s" % exc))
                continue
            for node in ast.walk(tree_):
                mods = []
                if isinstance(node, ast.Import):
                    mods = [a.name for a in node.names]
                elif isinstance(node, ast.ImportFrom) and node.module and node.level == 0:
                    mods = [node.module] + ["%s.%s" % (node.module, a.name) for a in node.names]
                elif isinstance(node, ast.Call):
                    fn = node.func
                    fname = fn.id if isinstance(fn, ast.Name) else (fn.attr if isinstance(fn, ast.Attribute) else "")
                    if fname in ("__import__", "import_module") and node.args and isinstance(node.args[0], ast.Constant) and isinstance(node.args[0].value, str):
                        mods = [node.args[0].value]
                for m in mods:
                    if m in NETWORK_MODULES or any(m.startswith(x + ".") for x in NETWORK_MODULES):
                        hits.append((os.path.relpath(path, src), m))
    return files, sorted(set(hits))


def exec_case(case, facts, src=None):
    world, opts = case["world"], dict(case["opts"])
    mode = case.get("mode", "clean")
    violations = []
    stats = {"runs": 0, "mode:" + mode: 1, "country:" + opts["country"]: 1}
    trace_sig = []
    sample = {"seed": case["seed"], "mode": mode}
    if mode == "static_lint":
        _, hits = static_lint(src or runner.DEFAULT_SRC)
        vs = [{"cls": "static-network-import", "site": "%s:%s" % (f, m), "detail": "source file imports a networking module"} for f, m in hits]
        return {"violations": vs, "signatures": [("static_lint", True)], "stats": {"runs": 0}, "sample": {"static_lint_hits": hits}}
    if mode == "walk_packages":
        w = runner.World("c18w")
        try:
            w.put("w0.ini", "x")
            w.put("w0.ods", "x")
            res = runner.run(w, {"config": "w0.ini", "input": "w0.ods"}, {"country": "us", "outdir": "out"}, host=case["host"], record_imports=True, walk_packages=True, src=src, strace=True)
        finally:
            w.cleanup()
        stats["runs"] += 1
        stats["probe:walk_packages_run"] = 1
        violations += monitors(res)
        violations += _sys_monitor(res, stats)
        iv, info = import_monitor(res)
        violations += iv
        failed = [e.get("failed") for e in core.events(res) if e["ev"] == "walk_packages"]
        mods = (res.get("child") or {}).get("modules_rp2") or []
        stats["rp2_modules_imported_under_hook"] = len(mods)
        sample.update({"rp2_modules": len(mods), "import_failures": failed, "third_party_or_info_imports": info[:20]})
        return {"violations": violations, "signatures": [("walk_packages", True)], "stats": stats, "sample": sample}

    if mode == "input_fault":
        cfg, ods, opts = faults.apply_fault(world, opts, case["fault"])
        w = runner.World("c18i", opts.get("cwd_shape"))
        core.fix_outdir(w, opts)
        from .c12 import _files_for  # pylint: disable=import-outside-toplevel

        files = _files_for(w, opts, cfg, ods)
        core.apply_prestate(w, opts, world, case.get("prestate") or [])
        core.add_bystanders(w, opts)
        core.add_lock_files(w, {k: v for k, v in files.items() if v})
    else:
        w, files = core.layout_case("c18", world, opts, case.get("prestate"), bystanders=True)
    try:
        io_faults = ([case["io_fault"]] + list(case.get("io_faults_more") or [])) if mode == "io_fault" else None
        crash_at = case.get("crash_at") if mode == "crash_history" else None
        interrupt_at = case.get("crash_at") if mode == "interrupt_history" else None
        res = runner.run(w, files, opts, host=case["host"], faults=io_faults, crash_at=crash_at, interrupt_at=interrupt_at, record_imports=True, src=src,
                         strace=bool(case.get("strace")))
        stats["runs"] += 1
        violations += monitors(res)
        violations += _sys_monitor(res, stats)
        iv, _ = import_monitor(res)
        violations += iv
        child = res.get("child") or {}
        trace_sig.append(tuple(core.fs_trace(res)))
        outcome = "crashed" if child.get("crashed") else ("exit%s" % res["rc"])
        sample.update({"argv": res["argv"], "exit": res["rc"], "io_steps": child.get("io_steps"), "faults_fired": child.get("faults"), "crashed": child.get("crashed")})
        if mode == "io_fault":
            stats["cfg:io:%s:%s" % (case["io_fault"]["op"], case["io_fault"]["cls"])] = 1
            if len(child.get("faults") or []) > 1:
                stats["probe:io_fault_sequence_fired"] = 1
            if child.get("faults"):
                f0 = child["faults"][0]
                stats["fault:io:%s:%s" % (f0["fault"], f0["cls"])] = 1
                stats["probe:io_fault_fired"] = 1
                if f0["fault"] == "write" and f0["cls"] == "output_tmp":
                    stats["probe:enospc_mid_save"] = 1
                if f0["fault"] == "vanish":
                    stats["probe:vanish_fired"] = 1
                if f0["fault"] == "remove":
                    stats["probe:stale_report_unlink_faulted"] = 1
                if f0["cls"] in ("log", "log_dir"):
                    stats["probe:log_dir_fault_fired"] = 1
        if mode == "input_fault":
            stats["cfg:input:" + case["fault"]["class"]] = 1
            if res["rc"] != 0:
                stats["fault:input:" + case["fault"]["class"]] = 1
                stats["probe:input_fault_error_path"] = 1
        if any(p.endswith(".tmp") for p in core.snapshot_diff(res)):
            stats["probe:torn_tmp_left_behind"] = 1
        if mode == "interrupt_history":
            stats["cfg:interrupt"] = 1
            if child.get("interrupted"):
                stats["fault:interrupt"] = 1
                stats["probe:interrupt_fired"] = 1
        if mode in ("crash_history", "interrupt_history"):
            stats["cfg:crash"] = stats.get("cfg:crash", 0) + (1 if mode == "crash_history" else 0)
            if child.get("crashed"):
                stats["fault:crash"] = 1
                stats["probe:crash_fired"] = 1
            # restart on the surviving directory (optionally killed again, then restarted once more)
            if case.get("crash_at2"):
                res1b = runner.run(w, files, opts, host=dict(case["host"], epoch_ns=case["host"]["epoch_ns"] + 1800 * 10**9), crash_at=case["crash_at2"], src=src)
                stats["runs"] += 1
                violations += [dict(x, detail="(second crash) " + x["detail"]) for x in monitors(res1b)]
                if (res1b.get("child") or {}).get("crashed"):
                    stats["probe:double_crash_fired"] = 1
                trace_sig.append(tuple(core.fs_trace(res1b)))
            res2 = runner.run(w, files, opts, host=dict(case["host"], epoch_ns=case["host"]["epoch_ns"] + 3600 * 10**9), record_imports=False, src=src, strace=bool(case.get("strace")))
            stats["runs"] += 1
            stats["probe:second_run_after_crash"] = 1
            violations += [dict(x, detail="(restart after crash) " + x["detail"]) for x in monitors(res2)]
            violations += _sys_monitor(res2, stats, "(restart after crash) ")
            trace_sig.append(tuple(core.fs_trace(res2)))
            outcome += "+exit%s" % res2["rc"]
            sample["restart_exit"] = res2["rc"]
        for p in core.host_perturbations(case["host"]):
            stats["pert:" + p] = 1
        desc = case.get("io_fault") or case.get("fault") or case.get("crash_at")
        sig = (mode, opts["country"], repr(W.to_jsonable(desc))[:200] if mode != "input_fault" else (case["fault"]["class"], case["fault"]["kind"]), outcome, tuple(trace_sig))
        nondefault = [k for k in ("method", "lang", "from", "to", "neg", "asset", "prefix") if case["opts"].get(k)]
        nontrivial = mode != "clean" or bool(nondefault) or bool(core.host_perturbations(case["host"])) or bool(case.get("prestate"))
        sample["violations"] = violations
        return {"violations": violations, "signatures": [(repr(sig), nontrivial)], "stats": stats, "sample": sample}
    finally:
        w.cleanup()


def reduce_candidates(case):
    if case.get("io_faults_more"):
        yield dict(case, io_faults_more=[])
        yield dict(case, io_fault=case["io_faults_more"][0], io_faults_more=case["io_faults_more"][1:])
    if case.get("crash_at2"):
        yield dict(case, crash_at2=None)
    if case.get("mode") in ("io_fault", "crash_history", "input_fault", "interrupt_history"):
        yield dict(case, mode="clean")
    for c in c16.reduce_candidates(case):
        yield c
    if case.get("mode") == "crash_history" and case.get("crash_at", 1) > 1:
        for k in (1, case["crash_at"] // 2, case["crash_at"] - 1):
            if 1 <= k < case["crash_at"]:
                yield dict(case, crash_at=k)


def extra_phase(tier, master, facts, src, log):
    from .. import engine  # pylint: disable=import-outside-toplevel

    del facts
    case = {"property": PROP, "seed": gen.case_seed(master, PROP + "-walk", 0), "index": 10**9, "mode": "walk_packages", "host": dict(gen.BASE_HOST),
            "world": None, "opts": {"country": "us"}}
    outs = engine.run_cases(PROP, [case], src=src)
    # every input-fault *kind* once under the monitors (error and fallback paths are where code that breaks this property lives):
    # the kind sweep of C12 on one fixed-shape world per entry-point family, executed in input_fault mode
    from .c12 import _kind_sweep_cases  # pylint: disable=import-outside-toplevel

    sweep = []
    seen_worlds = set()
    seen_kinds = set()
    all_facts0 = tree.all_facts(src or runner.DEFAULT_SRC)
    for k, c12case in enumerate(_kind_sweep_cases(master, all_facts0)):
        flist = list(c12case["faults"])
        if c12case["seed"] not in seen_worlds:
            seen_worlds.add(c12case["seed"])
            flist += faults.enumerate_oddities(c12case["world"], c12case["opts"], all_facts0)
        for j, f in enumerate(flist):
            if f["class"] not in ("config", "storage", "cmdline", "oddity") and c12case["opts"]["country"] != "us":
                continue  # row-level and table-level kinds on the first world only; config / storage / command-line kinds and oddities on all four
            if f["class"] not in ("config", "storage", "cmdline", "oddity"):
                # C12's sweep meets each numeric kind with every row type; for confinement one row per (kind, table, field) is enough
                k2 = (f["class"], f["kind"], f.get("table"), f.get("field"))
                if k2 in seen_kinds:
                    continue
                seen_kinds.add(k2)
            # alternately into a separate output directory and into the directory that holds the input files themselves
            o = dict(c12case["opts"], outdir="out" if (k + j) % 2 == 0 else "INPUTDIR")
            if f.get("kind") == "json_format" or (k + j) % 4 == 1:
                o["file_names"] = ["legacy.json", "w0.ods"]  # a config in the old format usually still has its old name
            sweep.append({"property": PROP, "seed": c12case["seed"], "index": 2 * 10**9 + k * 1000 + j, "mode": "input_fault", "fault": f, "world": c12case["world"],
                          "opts": o, "host": dict(gen.BASE_HOST, tty=(f["class"] == "cmdline" or (k + j) % 3 == 0), desktop=(f["class"] == "cmdline" and (k + j) % 2 == 0) or (k + j) % 7 == 0), "prestate": [], "swarm": c12case["swarm"],
                          "strace": (k + j) % 5 == 0})  # usage errors on an interactive terminal: pagers and prompts live behind isatty()
    sweep_outs = engine.run_cases(PROP, sweep, src=src)
    for o in sweep_outs:
        if "stats" in o:
            o["stats"]["input_fault_kind_sweep_runs"] = o["stats"].get("runs", 0)
    outs += sweep_outs
    log("C18 input-fault kind sweep: %d runs under the monitors" % len(sweep))
    # crash-point enumeration: for a few fixed worlds, kill the process at *every* I/O step of the run (1..N) and restart it on the
    # surviving directory; the monitors are evaluated on both runs
    sweep_info = []
    crash_cases = []
    n_worlds = int(os.environ.get("RP2SIM_CRASH_WORLDS", "0")) or CRASH_WORLDS[tier]
    all_facts = tree.all_facts(src or runner.DEFAULT_SRC)
    for k in range(n_worlds):
        base = c16.make_case(gen.case_seed(master, PROP + "-crash", k), all_facts, 0)
        base["host"] = dict(gen.BASE_HOST)
        base["prestate"] = ["stale_report", "symlink_stale", "tmp_like"] if k % 2 == 0 else []
        base["readonly_inputs"] = False
        w, files = core.layout_case("c18n", base["world"], base["opts"], base["prestate"])
        try:
            probe = runner.run(w, files, base["opts"], host=base["host"], crash_at=10**9, src=src)  # never fires; enables the per-write crash points
        finally:
            w.cleanup()
        steps = (probe.get("child") or {}).get("io_steps") or 0
        sweep_info.append({"world_seed": base["seed"], "entry_point": base["opts"]["country"], "io_steps": steps, "fault_free_exit": probe["rc"],
                           "assets": len(base["world"]["sheets"]), "prestate": base["prestate"]})
        for at in range(1, steps + 1):
            crash_cases.append(dict(base, property=PROP, mode="crash_history", crash_at=at, index=3 * 10**9 + k * 10**4 + at, strace=(at % 7 == 0)))
    crash_outs = engine.run_cases(PROP, crash_cases, src=src)
    for o in crash_outs:
        if "stats" in o:
            o["stats"]["probe:crash_point_sweep"] = 1
            o["stats"]["crash_point_sweep_runs"] = o["stats"].get("runs", 0)
    outs += crash_outs
    log("C18 crash-point sweep: %d worlds, %d crash points (every I/O step), each followed by a restart" % (n_worlds, len(crash_cases)))
    files, hits = static_lint(src or runner.DEFAULT_SRC)
    lint_violations = [{"cls": "static-network-import", "site": "%s:%s" % (f, m), "detail": "source file imports a networking module"} for f, m in hits]
    if lint_violations:
        outs.append({"index": 10**9 + 1, "seed": 0, "violations": lint_violations, "signatures": [("static_lint", True)], "stats": {"runs": 0}, "sample": {"static_lint_hits": hits},
                     "case": dict(case, mode="static_lint")})
    log("C18 import seam: walk_packages run done; static lint (auxiliary): %d files, %d hits" % (files, len(hits)))
    return outs, {"coverage": {"crash_points_enumerated": sweep_info, "static_lint": {"kind": "non-simulation auxiliary (AST walk)", "files": files, "hits": [list(h) for h in hits]}}}
