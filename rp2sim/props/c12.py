"""C12 - malformed or contradictory input is rejected, never silently processed.

Workload: a valid world + valid option tuple (its fault-free run must exit 0, otherwise the
case is set aside as vacuous). Fault space: exactly one fault of a documented class injected at
a (class, position) pair. Oracle at the process boundary, on the recorded run: exit status
non-zero, an error reported, and no create/write/rename/delete under the output directory (trace
and before/after listing), so a report written and then removed, or asset 1 reported before
asset 2 fails, is seen. The thorough tier additionally enumerates *every* applicable
(class, position) pair of a handful of small worlds."""
import os
import random

from .. import core, engine, faults, gen, runner, tree
from .. import world as W

PROP = "C12"
LEVEL = "fault_enumeration"
CASES = {"quick": 340, "thorough": 6000}
WALL_CAP = {"quick": 1500, "thorough": 5 * 3600}
FAULTS_PER_CASE = 5
ENUM_WORLDS = {"quick": 0, "thorough": 6}
RULE = ("one evaluation = one single fault (class, position) injected into the stored config / spreadsheet / argv of a generated valid "
        "world whose fault-free run exits 0, executed as one fresh interpreter; quick: faults sampled class-balanced with a bias to "
        "the last asset / last row / first row; thorough: also every applicable (class, position) pair of several small worlds "
        "(exhaustive for those worlds only). distinct = distinct (fault kind, table, position class, entry point, rejection site, "
        "exit status, file-system trace); non-trivial = the fault was applied and changed the stored bytes or argv (always true by "
        "construction, verified by comparing with the fault-free artefacts)")
ASSUMPTIONS = [
    "a fault instance is invalid by construction against docs/input_files.md; borderline instances the docs do not call invalid are not generated",
    "generated base worlds are valid per the validity model and their fault-free run exits 0 (checked per case)",
]
PROBES = ["fault_in_last_asset", "fault_in_last_row", "fault_in_first_row", "fault_with_stale_reports_present", "rejected_by_argparse",
          "rejected_before_parse", "rejected_at_row_parse", "rejected_after_compute", "multi_asset_fault_not_first"]


def _pos_class(world, fault):
    if "row" not in fault or "table" not in fault:
        return "-"
    try:
        t = faults._find_table(faults._find_sheet(world, fault["sheet"]), fault["table"])  # pylint: disable=protected-access
    except KeyError:
        return "-"
    n = len(t["rows"])
    i = fault["row"]
    return "only" if n == 1 else ("first" if i == 0 else ("last" if i == n - 1 else "middle"))


def _row_type(world, fault):
    """Transaction type of the faulted row, plus the exchange-supplied optional values it carries (checks that compare computed and
    supplied values take other paths when those are present)."""
    if "row" not in fault or "table" not in fault or "sheet" not in fault:
        return "-"
    try:
        t = faults._find_table(faults._find_sheet(world, fault["sheet"]), fault["table"])  # pylint: disable=protected-access
        r = t["rows"][fault["row"]]
        supplied = [f for f in ("fiat_in_no_fee", "fiat_in_with_fee", "fiat_out_no_fee", "crypto_out_with_fee") if r.get(f) is not None]
        if t["type"] == "OUT" and r.get("fiat_fee") is not None:
            supplied.append("fiat_fee")
        return r.get("transaction_type", "-") + "".join("+" + f for f in supplied)
    except (KeyError, IndexError):
        return "-"


def _choose_faults(rng, world, opts, facts, k):
    allf = faults.enumerate_faults(world, opts, facts)
    by_class = {}
    for f in allf:
        by_class.setdefault(f["class"], []).append(f)
    classes = sorted(by_class)
    chosen = []
    read = [s["name"] for s in world["sheets"] if not opts.get("asset") or s["name"] == opts["asset"]]
    for _ in range(k):
        c = rng.choice(classes)
        cands = by_class[c]
        r = rng.random()
        if r < 0.35:
            last = [f for f in cands if f.get("sheet") == sorted(read)[-1]]
            cands = last or cands
        if r < 0.5:
            edge = [f for f in cands if _pos_class(world, f) in ("last", "first", "only")]
            cands = edge or cands
        # uniform over (kind, transaction type of the faulted row), then over positions: a check that is weakened for one transaction
        # type only (STAKING in the OUT table, FEE, GIFT ...) must not hide behind the many SELL and BUY rows
        groups = {}
        for f in cands:
            groups.setdefault((f["kind"], _row_type(world, f)), []).append(f)
        chosen.append(rng.choice(groups[rng.choice(sorted(groups))]))
    return chosen, len(allf)


def make_case(seed, facts, index=0):
    rng = random.Random(seed)
    swarm = {
        "optional_cols": rng.random() < 0.5, "permute": rng.random() < 0.8, "shapes": rng.random() < 0.5, "micro": rng.random() < 0.2,
        "mixed_tz": rng.random() < 0.8, "need_uid": rng.random() < 0.7, "ts_styles": rng.choice([["space"], ["space", "T", "Z", "nocolon"], ["slash"], ["space", "slash"]]),
        "clock": rng.random() < 0.5, "env": rng.random() < 0.5, "hash": rng.random() < 0.5, "schedule": True, "window": rng.random() < 0.5,
        "n_assets": rng.choice([1, 2, 2, 3]), "n_rows": rng.choice([1, 2, 3, 4, 6, 8, 12]),
    }
    country = rng.choice(tree.COUNTRIES)
    for _ in range(50):
        world = W.gen_world(rng, swarm, country)
        if W.validate(world)[0]:
            break
    else:
        raise runner.HarnessError("could not generate a valid world for seed %d" % seed)
    opts = gen.gen_options(rng, world, country, facts[country], swarm)
    opts["neg"] = False
    if len(world["sheets"]) > 1 and rng.random() < 0.2:
        opts["asset"] = rng.choice(sorted(s["name"] for s in world["sheets"]))  # a validation that is skipped or changed under -a
    host = gen.gen_host(rng, swarm)
    if rng.random() < 0.9:
        host["profiler"] = False
    prestate = gen.gen_prestate(rng, opts) if rng.random() < 0.4 else []
    chosen, total = _choose_faults(rng, world, opts, facts, FAULTS_PER_CASE)
    # -n only lifts the per-account balance check; every fault class stays invalid under it (a validation that is skipped when -n is given)
    opts["neg"] = rng.random() < 0.25
    return {"property": PROP, "seed": seed, "index": index, "swarm": swarm, "world": world, "opts": opts, "host": host,
            "prestate": prestate, "faults": chosen, "baseline": True, "applicable_faults": total}


def valid_case(case):
    if not W.validate(case["world"])[0]:
        return False
    o = case["opts"]
    if o.get("from") and o.get("to") and o["from"] > o["to"]:
        return False
    if case["world"].get("methods") and o.get("method"):
        return False
    names = [s["name"] for s in case["world"]["sheets"]]
    if o.get("asset") and o["asset"] not in names:
        return False
    for f in case["faults"]:
        if not _fault_applicable(case["world"], f):
            return False
    return True


def _fault_applicable(world, f):
    try:
        if "sheet" in f:
            s = faults._find_sheet(world, f["sheet"])  # pylint: disable=protected-access
            if "table" in f:
                t = faults._find_table(s, f["table"])  # pylint: disable=protected-access
                if "row" in f and f["row"] >= len(t["rows"]):
                    return False
                if f["kind"] in ("repeat_table", "repeat_table_other_case", "data_outside_table", "delete_header") and not t["rows"]:
                    return False
                if f["kind"] == "delete_table_end_at_eof" and s["tables"][-1]["type"] != f["table"]:
                    return False
        if f["kind"] == "duplicate_column" and f.get("pair") == "harmless" and not ("notes" in world["headers"][f["table"]] and "unique_id" in world["headers"][f["table"]]):
            return False
        if f["kind"] == "asset_mismatch" and f["value"] not in world["assets"]:
            return False
        if f["kind"] == "column_beyond_sheet" and (f["field"] not in world["headers"][f["table"]] or not any(t["rows"] for s in world["sheets"] for t in s["tables"] if t["type"] == f["table"])):
            return False
        if f["kind"] in ("method_and_schedule", "bad_method_year", "unknown_method_in_schedule") and not world.get("methods"):
            return False
        if f["kind"] in ("method_not_accepted", "method_unknown") and world.get("methods"):
            return False
    except KeyError:
        return False
    return True


def _files_for(w, opts, config_text, ods, readonly=False):
    sub = opts.get("files_in", "")
    names = opts.get("file_names") or ["w0.ini", "w0.ods"]
    files = {"config": sub + names[0], "input": sub + names[1]}
    cf = opts.get("cmd_fault")
    if cf == "input_not_ods":
        files["input"] = sub + "w0.txt"
    w.put(files["config"], config_text)
    w.put(files["input"], ods)
    if cf == "missing_config":
        files["config"] = sub + "nope.ini"
    elif cf == "missing_input":
        files["input"] = sub + "nope.ods"
    elif cf == "missing_positional":
        files["input"] = None
    del readonly
    return files


def check_rejected(res):
    """C12 oracle on the recorded run of a faulted input -> violations."""
    v = []
    if res["timed_out"]:
        return [{"cls": "hang-on-bad-input", "site": "-", "detail": "no exit within %ss" % res.get("budget_s", runner.RUN_TIMEOUT)}]
    writes = core.output_writes(res)
    out_rel = core.rel_world(res, res["layout"]["output_dir"])
    log_rel = core.rel_world(res, res["layout"]["log_dir"])
    changed = {p: k for p, k in core.snapshot_diff(res, out_rel).items() if p != out_rel and p != log_rel and not p.startswith(log_rel + os.sep)}
    if res["rc"] == 0:
        fatal = "Fatal exception occurred" in core.all_text(res) or "Traceback (most recent call last)" in res["stderr"] or ": error:" in res["stderr"]
        if fatal:
            exc, site, msg = core.failure_site(res)
            v.append({"cls": "rejected-but-exit-0", "site": "exit-status", "detail": "%s at %s: %s" % (exc, site, msg)})
        else:
            v.append({"cls": "accepted", "site": "reports=%d" % len(changed), "detail": "exit 0, no error; output changes: %s" % sorted(changed.items())[:6]})
        return v
    if not core.error_reported(res):
        v.append({"cls": "silent-failure", "site": "exit-%s" % res["rc"], "detail": "non-zero exit without any error message"})
    if writes or changed:
        exc, site, msg = core.failure_site(res)
        kinds = sorted({(e["ev"], tuple(t["cls"] for t in e.get("targets", [])) or e.get("cls")) for e in writes})
        v.append({"cls": "partial-output", "site": "%s:%s" % (site, exc), "detail": "rejected (%s) but the output directory was touched: events=%s changes=%s" % (msg[:80], kinds[:6], sorted(changed.items())[:6])})
    return v


def exec_case(case, facts, src=None):
    world = case["world"]
    base_opts = dict(case["opts"])
    host = case["host"]
    violations = []
    signatures = []
    stats = {"runs": 0, "evaluations": 0}
    samples = []
    base_cfg, base_ods = W.materialize(world)
    if case.get("baseline", True):
        w, files = core.layout_case("c12b", world, base_opts, [])
        try:
            res0 = runner.run(w, files, base_opts, host=dict(host, profiler=False), src=src)
            stats["runs"] += 1
        finally:
            w.cleanup()
        if res0["rc"] != 0 or res0["timed_out"]:
            exc, site, msg = core.failure_site(res0)
            stats["vacuous_baseline_failed"] = 1
            return {"violations": [], "signatures": [("vacuous|%s:%s" % (site, exc), False)], "stats": stats,
                    "sample": {"seed": case["seed"], "vacuous": "fault-free run failed: %s %s %s" % (exc, site, msg)}}
    sorted_sheets = sorted(s["name"] for s in world["sheets"])
    for fault in case["faults"]:
        cfg, ods, opts = faults.apply_fault(world, base_opts, fault)
        changed = (cfg != base_cfg) or (ods != base_ods) or bool(opts.get("cmd_fault")) or (runner.build_argv(opts, "c", "i") != runner.build_argv(base_opts, "c", "i"))
        if not changed:
            # a fault that did not reach the stored bytes or the command line must never be judged: the run would be a valid one
            raise runner.HarnessError("fault %r left config, spreadsheet and argv unchanged" % (fault,))
        w = runner.World("c12f", opts.get("cwd_shape"))
        try:
            core.fix_outdir(w, opts)
            files = _files_for(w, opts, cfg, ods)
            core.apply_prestate(w, opts, world, case.get("prestate") or [])
            res = runner.run(w, files, opts, host=host, src=src)
            if res["timed_out"]:
                res = runner.run(w, files, opts, host=host, src=src)
            stats["runs"] += 1
            stats["evaluations"] += 1
        finally:
            w.cleanup()
        vs = check_rejected(res)
        for v in vs:
            v["fault"] = fault
        violations.extend(vs)
        exc, site, _ = core.failure_site(res)
        pos = _pos_class(world, fault)
        sig = (fault["class"], fault["kind"], fault.get("table", "-"), pos, base_opts["country"], site, exc, res["rc"], tuple(core.fs_trace(res)))
        signatures.append((repr(sig), bool(changed)))
        stats["cfg:" + fault["class"]] = stats.get("cfg:" + fault["class"], 0) + 1
        stats["kind:%s/%s" % (fault["class"], fault["kind"])] = stats.get("kind:%s/%s" % (fault["class"], fault["kind"]), 0) + 1
        stats["country:" + base_opts["country"]] = stats.get("country:" + base_opts["country"], 0) + 1
        if changed:
            stats["fault:" + fault["class"]] = stats.get("fault:" + fault["class"], 0) + 1
        stats["site:%s:%s" % (site, exc)] = stats.get("site:%s:%s" % (site, exc), 0) + 1
        # probes
        if fault.get("sheet") and fault["sheet"] == sorted_sheets[-1] and len(sorted_sheets) > 1:
            stats["probe:fault_in_last_asset"] = stats.get("probe:fault_in_last_asset", 0) + 1
        if fault.get("sheet") and len(sorted_sheets) > 1 and fault["sheet"] != sorted_sheets[0]:
            stats["probe:multi_asset_fault_not_first"] = stats.get("probe:multi_asset_fault_not_first", 0) + 1
        if pos in ("last",):
            stats["probe:fault_in_last_row"] = stats.get("probe:fault_in_last_row", 0) + 1
        if pos in ("first",):
            stats["probe:fault_in_first_row"] = stats.get("probe:fault_in_first_row", 0) + 1
        if case.get("prestate"):
            stats["probe:fault_with_stale_reports_present"] = stats.get("probe:fault_with_stale_reports_present", 0) + 1
        if res["rc"] == 2:
            stats["probe:rejected_by_argparse"] = stats.get("probe:rejected_by_argparse", 0) + 1
        text = res["stderr"]
        if "Processing" not in text:
            stats["probe:rejected_before_parse"] = stats.get("probe:rejected_before_parse", 0) + 1
        elif "Generating output" in text:
            stats["probe:rejected_after_compute"] = stats.get("probe:rejected_after_compute", 0) + 1
        else:
            stats["probe:rejected_at_row_parse"] = stats.get("probe:rejected_at_row_parse", 0) + 1
        if len(samples) < 2 or vs:
            samples.append({"fault": W.to_jsonable(fault), "argv": res["argv"], "exit": res["rc"], "rejection_site": "%s:%s" % (site, exc), "violations": [dict(v, fault=None) for v in vs]})
    clockless = {"seed": case["seed"], "entry_point": base_opts["country"], "assets": {s["name"]: {t["type"]: len(t["rows"]) for t in s["tables"]} for s in world["sheets"]},
                 "applicable_faults_in_world": case.get("applicable_faults"), "evaluated": samples}
    return {"violations": violations, "signatures": signatures, "stats": stats, "sample": clockless}


def reduce_candidates(case):
    from ..minimize import world_reductions  # pylint: disable=import-outside-toplevel

    c = case
    if len(c["faults"]) > 1:
        for f in c["faults"]:
            yield dict(c, faults=[f], baseline=False)
        return
    if c.get("baseline"):
        yield dict(c, baseline=False)
    if c.get("prestate"):
        yield dict(c, prestate=[])
    if c["host"] != gen.BASE_HOST:
        yield dict(c, host=dict(gen.BASE_HOST))
        for k, v in gen.BASE_HOST.items():
            if c["host"].get(k) != v:
                yield dict(c, host=dict(c["host"], **{k: v}))
    o = c["opts"]
    for k, dflt in (("asset", None), ("prefix", ""), ("lang", None), ("from", None), ("to", None), ("method", None), ("outdir", "out"),
                    ("path_style", "rel"), ("files_in", "")):
        if o.get(k) != dflt:
            yield dict(c, opts=dict(o, **{k: dflt}))
    f = c["faults"][0]
    if c["world"].get("methods") and f["kind"] not in ("method_and_schedule", "bad_method_year", "unknown_method_in_schedule"):
        w2 = W.clone(c["world"])
        w2["methods"] = None
        yield dict(c, world=w2)
    for w2 in world_reductions(c["world"]):
        # keep the fault addressable: rows before the faulted row may go only with an index shift
        f2 = _retarget(c["world"], w2, f)
        if f2 is not None:
            yield dict(c, world=w2, faults=[f2])


def _retarget(old, new, f):
    """Re-address fault f (row index) in the reduced world, or None when its target is gone."""
    if "sheet" not in f:
        return f
    try:
        s_new = faults._find_sheet(new, f["sheet"])  # pylint: disable=protected-access
    except KeyError:
        return None
    if "table" not in f:
        return f
    try:
        t_old = faults._find_table(faults._find_sheet(old, f["sheet"]), f["table"])  # pylint: disable=protected-access
        t_new = faults._find_table(s_new, f["table"])  # pylint: disable=protected-access
    except KeyError:
        return None
    if "row" not in f:
        return f if (t_new["rows"] or f["kind"] not in ("repeat_table", "repeat_table_other_case", "delete_header")) else None
    target = t_old["rows"][f["row"]]
    for i, r in enumerate(t_new["rows"]):
        if r.get("unique_id") == target.get("unique_id") and r.get("timestamp") == target.get("timestamp"):
            return dict(f, row=i)
    return None


# ------------------------------------------------------------------------------ thorough: full enumeration


def _kind_sweep_cases(master, facts):
    """Every fault *kind* at least once per world on three fixed-shape worlds (us with a method schedule, jp, ie), whatever the
    sampling of the main phase happens to pick: all config / storage / command-line faults and one position of every row-level and
    table-level kind."""
    cases = []
    shapes = [("us", True), ("jp", False), ("ie", False), ("generic", True)]
    for k, (country, schedule) in enumerate(shapes):
        seed = gen.case_seed(master, PROP + "-sweep", k)
        rng = random.Random(seed)
        swarm = {"optional_cols": True, "permute": k % 2 == 0, "shapes": False, "n_assets": 2, "n_rows": 6 if k else 40, "mixed_tz": True, "need_uid": True, "schedule": True, "window": False,
                 "ts_styles": [["space"], ["slash"], ["space", "T", "slash"], ["space", "Z", "nocolon"]][k % 4]}
        world = None
        best = None
        for _ in range(200):
            world = W.gen_world(rng, swarm, country)
            kinds = {t["type"] for s in world["sheets"] for t in s["tables"] if t["rows"]}
            fee_intra = any(W.D(r["crypto_sent"]) > W.D(r["crypto_received"]) for _, t, r in W.all_rows(world) if t == "INTRA")
            if W.validate(world)[0] and kinds == {"IN", "OUT", "INTRA"} and fee_intra:
                if k:
                    break
                # the first (larger) world should hold every transaction type of every table, so that each numeric fault kind meets each type
                types = {(t, r.get("transaction_type")) for _, t, r in W.all_rows(world)}
                if best is None or len(types) > best[0]:
                    best = (len(types), world)
                if len(types) >= len(W.IN_TYPES) + len(W.OUT_TYPES) + 1:
                    break
        if not k and best is not None:
            world = best[1]
        opts = gen.gen_options(rng, world, country, facts[country], swarm)
        opts.update({"neg": False, "asset": None, "outdir": "out", "path_style": "rel", "files_in": "", "prefix": "", "method": None, "lang": None, "from": None, "to": None})
        if schedule:
            years = W.local_years(world)
            world["methods"] = [[min(years) - 2, facts[country]["default_method"]], [min(years) + 1, facts[country]["methods"][-1]]]
        else:
            world["methods"] = None
        seen = set()
        chosen = []
        for f in faults.enumerate_faults(world, opts, facts):
            key = (f["class"], f["kind"], f.get("table"), f.get("field"), f.get("section"), repr(f.get("value")) if f["class"] in ("cmdline", "config") else None, f.get("pair"), f.get("frac"), f.get("variant"),
                   _row_type(world, f) if (f["class"] in ("nonpositive", "zero_spot", "both_fees", "bad_type") or f["kind"].startswith("empty_")) else None)
            if key in seen:
                continue
            seen.add(key)
            chosen.append(f)
        base = {"property": PROP, "seed": seed, "swarm": swarm, "world": world, "opts": opts, "host": dict(gen.BASE_HOST), "prestate": ["stale_report"] if k % 2 else [],
                "applicable_faults": len(chosen)}
        chunk = 10
        for j in range(0, len(chosen), chunk):
            cases.append(dict(base, index=3 * 10**9 + k * 10**6 + j, faults=chosen[j:j + chunk], baseline=(j == 0)))
    return cases


def extra_phase(tier, master, facts, src, log):
    sweep = _kind_sweep_cases(master, facts)
    log("C12 kind sweep: %d fault kinds x positions over 4 fixed-shape worlds" % sum(len(c["faults"]) for c in sweep))
    sweep_outs = engine.run_cases(PROP, sweep, src=src)
    for o in sweep_outs:
        if "stats" in o:
            o["stats"]["kind_sweep_evaluations"] = o["stats"].get("evaluations", 0)
    n_worlds = int(os.environ.get("RP2SIM_ENUM_WORLDS", "-1"))
    if n_worlds < 0:
        n_worlds = ENUM_WORLDS[tier]
    if not n_worlds:
        return sweep_outs, {}
    cases = []
    enumerated = []
    for k in range(n_worlds):
        seed = gen.case_seed(master, PROP + "-enum", k)
        rng = random.Random(seed)
        country = tree.COUNTRIES[k % len(tree.COUNTRIES)]
        swarm = {"optional_cols": k % 2 == 0, "permute": True, "shapes": False, "n_assets": 1 + k % 2, "n_rows": rng.choice([3, 4, 5]),
                 "mixed_tz": True, "need_uid": True, "schedule": k % 3 == 0, "window": False}
        for _ in range(50):
            world = W.gen_world(rng, swarm, country)
            if W.validate(world)[0]:
                break
        opts = gen.gen_options(rng, world, country, facts[country], swarm)
        opts.update({"neg": False, "asset": None, "outdir": "out", "path_style": "rel", "files_in": "", "prefix": ""})
        allf = faults.enumerate_faults(world, opts, facts)
        enumerated.append({"world_seed": seed, "entry_point": country, "rows": sum(1 for _ in W.all_rows(world)), "assets": len(world["sheets"]),
                           "fault_positions": len(allf), "schedule": bool(world.get("methods"))})
        base = {"property": PROP, "seed": seed, "swarm": swarm, "world": world, "opts": opts, "host": dict(gen.BASE_HOST), "prestate": [],
                "applicable_faults": len(allf)}
        chunk = 8
        for j in range(0, len(allf), chunk):
            cases.append(dict(base, index=10**9 + k * 10**6 + j, faults=allf[j:j + chunk], baseline=(j == 0)))
    log("C12 full enumeration: %d worlds, %d (class, position) pairs" % (n_worlds, sum(e["fault_positions"] for e in enumerated)))
    outs = sweep_outs + engine.run_cases(PROP, cases, src=src)
    return outs, {"exhaustive": False, "coverage": {"worlds_enumerated_completely": enumerated,
                                                     "exhaustive_note": "every applicable (class, position) pair of the listed worlds was executed; the sampled part of the run is not exhaustive, hence exhaustive=false for the run as a whole"}}
