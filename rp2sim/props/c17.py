"""C17 - results depend only on the input: deterministic, order- and asset-independent.

Differential oracle, no model: a reference run of (world, options) in a pristine directory under
the baseline host must agree with perturbed runs of the same (world, options) on exit status, on
the bytes of content.xml and styles.xml of every report, and on the normalised ComputedData dump.
Relations (several per case): repeat, host (clock / hash seed / ASLR / environment / paths /
prefix), history (earlier real runs into the same cwd and output directory - other worlds, other
options, crashed, I/O-faulted, input-faulted - plus residue), order (rows / tables / sheets
permuted, distinct instants only), subset (-a X and a world reduced to X against the all-assets run)."""
import random

from .. import compare, core, faults, gen, runner, tree
from .. import world as W
from . import c16
from .c18 import IO_FAULTS

PROP = "C17"
LEVEL = "exploration"
CASES = {"quick": 330, "thorough": 8000}
WALL_CAP = {"quick": 1500, "thorough": 5 * 3600}
RELATIONS = ["repeat", "host", "history", "order", "subset"]
WEIGHTS = {"ties": 0.4, "shared_instants": 0.5, "confusable": 0.25, "few_prices": 0.4, "micro": 0.4, "mixed_tz": 0.9, "whales": 0.2}
CRASH_WORLDS = {"quick": 1, "thorough": 6}
CRASH_STRIDE = {"quick": 3, "thorough": 1}
RULE = ("one case = a reference run of a generated valid world (all instants distinct) + option tuple in a pristine directory under the "
        "baseline host, plus 2-3 perturbed runs chosen from: repeat, host (clock epoch/tick/jumps, hash seed, ASLR, TZ/locale/LOG_LEVEL, "
        "path style, cwd layout, prefix), history (0-3 earlier real runs into the same cwd/output directory, some crashed / I/O-faulted / "
        "input-faulted, plus synthetic residue), order (rows, tables, sheets permuted), subset (-a X and world reduced to X). "
        "distinct = distinct (entry point, option shape, relation, perturbation detail class, outcome); non-trivial = the perturbation "
        "actually differed from the reference (host field changed / history run executed / permutation changed the stored bytes / subset smaller)")
ASSUMPTIONS = [
    "meta.xml, zip entry times and log file names legitimately carry the clock and are excluded from the comparison",
    "timestamps always carry a numeric UTC offset (the documented format); zone abbreviations and date-less stamps are outside 'valid input'",
    "row/table/sheet permutation is only applied to worlds whose instants are all distinct, as the property requires",
    "portfolio-relative cells of open_positions (weights, row-numbered formulas) are excluded from the asset-subset relation",
]
PROBES = ["reference_failed", "history_crashed_run", "history_io_faulted_run", "history_input_faulted_run", "history_left_torn_tmp", "stale_same_name_report_replaced",
          "order_permutation_changed_bytes", "subset_two_assets_share_row_numbers", "subset_with_window", "host_jump_fired", "multi_asset_case", "crash_point_sweep", "history_reports_edited_by_user", "history_interrupted_run", "twin_lot_hash_sweep"]


def make_case(seed, facts, index=0):
    rng = random.Random(seed)
    base = c16.make_case(rng.randint(0, 2**62), facts, index, weights=WEIGHTS)
    # C17 needs unique ids (dump normalisation) and distinct instants; both hold by construction of the generator
    tries = 0
    ties_ok = rng.random() < 0.35  # equal instants are valid input: everything but the storage-order relation applies to them too
    while ((not ties_ok and not W.distinct_instants(base["world"])) or "unique_id" not in base["world"]["headers"]["IN"] or "unique_id" not in base["world"]["headers"]["OUT"]
           or "unique_id" not in base["world"]["headers"]["INTRA"]) and tries < 20:
        base = c16.make_case(rng.randint(0, 2**62), facts, index, weights=WEIGHTS)
        tries += 1
    # the order / subset / repeat relations are most sensitive under the methods that rank lots (ties, heaps, caches): give them more weight
    fm = [m for m in facts[base["opts"]["country"]]["methods"] if m != "fifo"]
    if fm and not base["world"].get("methods") and rng.random() < 0.5:
        base["opts"]["method"] = rng.choice(fm)
    base["property"] = PROP
    base["seed"] = seed
    base["host"] = dict(gen.BASE_HOST)
    base["prestate"] = []
    base["readonly_inputs"] = False
    n_assets = len(base["world"]["sheets"])
    rels = []
    pool = ["repeat", "host", "host", "history", "history", "order", "order"] + (["subset", "subset", "subset"] if n_assets > 1 and not base["opts"].get("asset") else [])
    if not W.distinct_instants(base["world"]):
        pool = [r for r in pool if r != "order"] + ["host", "repeat"]  # the property promises order independence for distinct timestamps only
    for _ in range(rng.choice([2, 2, 3])):
        r = rng.choice(pool)
        rels.append(_make_relation(rng, r, base, facts))
    base["relations"] = rels
    return base


def _make_relation(rng, kind, base, facts):
    rel = {"kind": kind}
    if kind == "host":
        rel["host"] = gen.gen_host(rng, {"clock": rng.random() < 0.8, "env": rng.random() < 0.8, "hash": rng.random() < 0.9})
        rel["host"]["profiler"] = False
        rel["host"]["extra_env"] = gen.gen_extra_env(rng, facts[base["opts"]["country"]])
        rel["path_style"] = rng.choice(["rel", "abs", "dot"])
        rel["files_in"] = rng.choice(["", "inputs/", "cfg dir/"])
        rel["prefix"] = rng.choice([None, None, "p2_", ""])
        rel["outdir"] = rng.choice([None, "elsewhere/out", "ABS"])
        # the same bytes under other file names and with other modification times
        rel["file_names"] = rng.choice([None, None, ["my config.ini", "Übersicht 2021.ods"], ["c.INI", "input.v2.ods"], ["2023.ini", "2023.ods"]])
        rel["input_mtime"] = rng.choice([None, None, 86400, 946684800, 4102444800])
    elif kind == "history":
        runs = []
        for _ in range(rng.choice([1, 1, 2, 3])):
            h = {"mode": rng.choice(["clean", "clean", "crash", "crash", "io_fault", "input_fault", "interrupt"])}
            k = rng.random()
            if k < 0.45:
                h["world"] = "same"
                o = dict(base["opts"])
                f, t = gen.gen_window(rng, base["world"], o["country"])
                o["from"], o["to"] = f, t
                if rng.random() < 0.3 and not base["world"].get("methods"):
                    o["method"] = rng.choice(facts[o["country"]]["methods"])
                if rng.random() < 0.3 and not o.get("asset"):
                    o["asset"] = rng.choice(sorted(s["name"] for s in base["world"]["sheets"]))
                h["opts"] = o
            elif k < 0.7:
                # a sibling input: the same assets, exchanges, holders and column layout with other figures (all prices scaled, some sheets
                # or trailing rows missing) run with the options of the run under test - what "last year's file" or "the corrected file" looks like
                h["world"] = sibling_world(rng, base["world"])
                o = dict(base["opts"])
                if rng.random() < 0.4:
                    o["asset"] = rng.choice(sorted(s["name"] for s in base["world"]["sheets"]))
                h["opts"] = o
            else:
                other = c16.make_case(rng.randint(0, 2**62), facts)
                h["world"] = other["world"]
                o = other["opts"]
                # same entry point / cwd / output directory / prefix as the run under test: collisions are the point
                for key in ("outdir", "prefix", "path_style", "files_in"):
                    o[key] = base["opts"].get(key)
                h["opts"] = o
            if h["mode"] == "clean" and rng.random() < 0.4:
                h["edit_reports"] = rng.randint(0, 2**31)  # the user opens the reports of that run and types numbers into cells
            if h["mode"] in ("crash", "interrupt"):
                h["crash_at"] = rng.randint(1, 120)
            elif h["mode"] == "io_fault":
                h["io_fault"] = dict(rng.choice([f for f in IO_FAULTS if f["cls"] in ("output_tmp", "output", "log")]))
            elif h["mode"] == "input_fault":
                h["fault_pick"] = rng.randint(0, 10**6)
            runs.append(h)
        if rng.random() < 0.25:
            # "stale partial refresh": a full run of a sibling input, then a partial run of the input under test (one asset only, or killed
            # early), then the run under test - the sequence in which per-asset caches and incrementally updated files go wrong
            names = sorted(s["name"] for s in base["world"]["sheets"])
            full = {"mode": "clean", "world": sibling_world(rng, base["world"]), "opts": dict(base["opts"], asset=None)}
            part = {"mode": "clean", "world": "same", "opts": dict(base["opts"], asset=names[0])}
            if rng.random() < 0.4:
                part = {"mode": "crash", "world": "same", "opts": dict(base["opts"]), "crash_at": rng.randint(1, 25)}
            runs = [full, part]
        elif rng.random() < 0.2:
            # "reports of another flavour, touched by the user": the same input run with another method / prefix / window, its reports then
            # edited in a spreadsheet program, then the run under test into the same directory
            o = dict(base["opts"])
            fm = [m for m in facts[o["country"]]["methods"] if m != (o.get("method") or "fifo")]
            if fm and not base["world"].get("methods"):
                o["method"] = rng.choice(fm)
            elif o.get("prefix"):
                o["prefix"] = o["prefix"] + "old_"
            else:
                o["from"], o["to"] = gen.gen_window(rng, base["world"], o["country"])
            runs = [{"mode": "clean", "world": "same", "opts": o, "edit_reports": rng.randint(0, 2**31)}]
        rel["runs"] = runs
        rel["residue"] = gen.gen_prestate(rng, base["opts"]) if rng.random() < 0.6 else []
        rel["host"] = gen.gen_host(rng, {"clock": True, "env": False, "hash": rng.random() < 0.5}) if rng.random() < 0.5 else dict(gen.BASE_HOST)
        rel["host"]["profiler"] = False
    elif kind == "order":
        rel["perm_seed"] = rng.randint(0, 2**31)
        rel["host"] = dict(gen.BASE_HOST, hashseed=rng.choice([0, 0, rng.randint(1, 2**32 - 1)]))
    elif kind == "repeat":
        rel["sched_seed"] = rng.randint(1, 2**31)  # same host, another seeded order of whatever the program runs in worker threads
        rel["hashseed"] = rng.randint(1, 2**32 - 1)  # ... and another string-hash seed, as every ordinary re-run of a Python program has
    elif kind == "subset":
        names = sorted(s["name"] for s in base["world"]["sheets"])
        rel["asset"] = rng.choice(names)
        rel["via"] = rng.choice(["option", "world", "both", "both"])
        others = [n for n in names if n != rel["asset"]]
        if len(others) >= 2 and rng.random() < 0.6:
            # a proper multi-asset subset: X together with some, not all, of the other assets
            keep = rng.sample(others, rng.randint(1, len(others) - 1))
            rel["keep"] = sorted(keep + [rel["asset"]])
    return rel


def valid_case(case):
    if not c16.valid_case(case):
        return False
    if not W.distinct_instants(case["world"]) and any(r["kind"] == "order" for r in case["relations"]):
        return False
    names = [s["name"] for s in case["world"]["sheets"]]
    for rel in case["relations"]:
        if rel["kind"] == "subset" and (rel["asset"] not in names or len(names) < 2 or case["opts"].get("asset")):
            return False
        if rel["kind"] == "subset" and rel.get("keep") and not set(rel["keep"]) <= set(names):
            return False
    return bool(case["relations"])


def sibling_world(rng, world):
    """Same names and layout, other content: prices scaled, optional fiat columns dropped, possibly fewer sheets / rows."""
    from decimal import Decimal  # pylint: disable=import-outside-toplevel

    w2 = W.clone(world)
    factor = rng.choice([Decimal("0.5"), Decimal(2), Decimal(3)])
    for _, _, r in W.all_rows(w2):
        if r.get("spot_price") is not None:
            v = W.D(r["spot_price"]) * factor
            r["spot_price"] = v if v < 30000 else W.D(r["spot_price"])
        for f in ("fiat_in_no_fee", "fiat_in_with_fee", "fiat_out_no_fee", "fiat_fee"):
            if r.get(f) is not None and not (f == "fiat_fee" and "crypto_in" in r):
                r[f] = None
        if r.get("notes"):
            r["notes"] = "sibling"
    if len(w2["sheets"]) > 1 and rng.random() < 0.5:
        drop = rng.choice(w2["sheets"])["name"]
        w2["sheets"] = [s for s in w2["sheets"] if s["name"] != drop]
        if rng.random() < 0.5:
            w2["assets"] = [a for a in w2["assets"] if a != drop]
    return w2


def permute_storage(world, seed):
    rng = random.Random(seed)
    w2 = W.clone(world)
    for s in w2["sheets"]:
        for t in s["tables"]:
            rng.shuffle(t["rows"])
            t["gap"] = rng.choice([0, 1, 2, 4])
        rng.shuffle(s["tables"])
        s["lead"] = rng.choice([0, 1, 2])
    rng.shuffle(w2["sheets"])
    return w2


def reduce_world_to(world, asset):
    keep = [asset] if isinstance(asset, str) else list(asset)
    w2 = W.clone(world)
    w2["sheets"] = [s for s in w2["sheets"] if s["name"] in keep]
    w2["assets"] = [a for a in w2["assets"] if a in keep]
    w2["extra_sheets"] = []
    return w2


def _compare_full(kind, ref, res, assets, ref_prefix, prefix):
    """Whole-run equality: exit, every report of the reference, dumps."""
    v = []
    if ref["rc"] != res["rc"]:
        exc, site, msg = core.failure_site(res if res["rc"] != 0 else ref)
        return [{"cls": "%s:exit-status" % kind, "site": "%s:%s" % (site, exc), "detail": "reference exit %s, perturbed exit %s: %s" % (ref["rc"], res["rc"], msg)}]
    got = {compare.report_key(n, prefix): i for n, i in res["reports"].items()}
    for name, info in sorted(ref["reports"].items()):
        key = compare.report_key(name, ref_prefix)
        other = got.get(key)
        if other is None:
            v.append({"cls": "%s:report-missing" % kind, "site": compare.report_kind(key), "detail": "report %s of the reference run is absent from the perturbed run (%s)" % (key, sorted(got))})
            continue
        d = compare.first_report_diff(info, other, assets)
        if d:
            v.append({"cls": "%s:report-differs" % kind, "site": "%s:%s" % (compare.report_kind(key), d[0]), "detail": d[1]})
    d1, d2 = compare.dumps_by_asset(ref), compare.dumps_by_asset(res)
    if (ref.get("child") or {}).get("patched_compute_tax") and (res.get("child") or {}).get("patched_compute_tax"):
        dd = compare.first_dump_diff(d1, d2)
        if dd:
            v.append({"cls": "%s:computed-differs" % kind, "site": dd[0].split(".", 2)[-1] if dd[0].count(".") >= 2 else dd[0], "detail": "%s: %s" % dd})
    return v


def exec_case(case, facts, src=None):
    world, opts = case["world"], dict(case["opts"])
    assets = [s["name"] for s in world["sheets"]]
    stats = {"runs": 0, "country:" + opts["country"]: 1}
    violations = []
    signatures = []
    worlds = []
    sample = {"seed": case["seed"], "relations": []}
    nondefault = tuple(k for k in ("method", "lang", "from", "to", "neg", "asset", "prefix") if opts.get(k)) + (("schedule",) if world.get("methods") else ())
    if len(assets) > 1:
        stats["probe:multi_asset_case"] = 1
    try:
        w0, files0 = core.layout_case("c17r", world, opts, [])
        worlds.append(w0)
        ref = runner.run(w0, files0, opts, host=case["host"], dump=True, keep_content=True, src=src)
        stats["runs"] += 1
        sample["argv"] = ref["argv"]
        sample["reference_exit"] = ref["rc"]
        if ref["rc"] != 0 or ref["timed_out"]:
            stats["probe:reference_failed"] = 1
            exc, site, _ = core.failure_site(ref)
            return {"violations": [], "signatures": [("reference-failed|%s:%s" % (site, exc), False)], "stats": stats, "sample": sample}
        for rel in case["relations"]:
            kind = rel["kind"]
            stats["cfg:" + kind] = stats.get("cfg:" + kind, 0) + 1
            fired = False
            detail = ""
            vs = []
            if kind == "repeat":
                w1, f1 = core.layout_case("c17p", world, dict(opts), [])
                worlds.append(w1)
                res = runner.run(w1, f1, opts, host=dict(case["host"], sched_seed=rel.get("sched_seed", 0), hashseed=rel.get("hashseed", case["host"].get("hashseed", 0))), dump=True, keep_content=True, src=src)
                stats["runs"] += 1
                fired = True
                if (res.get("child") or {}).get("sched_steps"):
                    stats["probe:worker_tasks_scheduled"] = 1
                vs = _compare_full(kind, ref, res, assets, opts.get("prefix") or "", opts.get("prefix") or "")
            elif kind == "host":
                o2 = dict(opts, path_style=rel["path_style"], files_in=rel["files_in"])
                if rel.get("prefix") is not None:
                    o2["prefix"] = rel["prefix"]
                if rel.get("outdir") is not None:
                    o2["outdir"] = rel["outdir"]
                if rel.get("file_names"):
                    o2["file_names"] = rel["file_names"]
                if rel.get("input_mtime") is not None:
                    o2["input_mtime"] = rel["input_mtime"]
                w1, f1 = core.layout_case("c17p", world, o2, [])
                worlds.append(w1)
                res = runner.run(w1, f1, o2, host=rel["host"], dump=True, keep_content=True, src=src)
                stats["runs"] += 1
                perts = core.host_perturbations(rel["host"])
                for p in perts:
                    stats["pert:" + p] = stats.get("pert:" + p, 0) + 1
                for key in ("path_style", "files_in", "prefix", "outdir", "file_names", "input_mtime"):
                    if o2.get(key) != opts.get(key):
                        stats["pert:" + key] = stats.get("pert:" + key, 0) + 1
                        perts.append(key)
                if ((res.get("child") or {}).get("clock") or {}).get("jumps"):
                    stats["probe:host_jump_fired"] = 1
                fired = bool(perts)
                detail = ",".join(sorted(perts))
                vs = _compare_full(kind, ref, res, assets, opts.get("prefix") or "", o2.get("prefix") or "")
            elif kind == "history":
                w1, f1 = core.layout_case("c17h", world, dict(opts), rel.get("residue") or [])
                worlds.append(w1)
                modes = []
                for i, h in enumerate(rel["runs"]):
                    hw = world if h["world"] == "same" else h["world"]
                    ho = dict(h["opts"])
                    ho["outdir"] = opts.get("outdir")
                    cfg, ods = W.materialize(hw)
                    io_faults, crash_at, interrupt_at = None, None, None
                    if h["mode"] == "input_fault":
                        allf = faults.enumerate_faults(hw, ho, facts) + faults.enumerate_oddities(hw, ho, facts)
                        cfg, ods, ho = faults.apply_fault(hw, ho, allf[h["fault_pick"] % len(allf)])
                        ho.pop("cmd_fault", None)
                    elif h["mode"] == "io_fault":
                        io_faults = [h["io_fault"]]
                    elif h["mode"] == "crash":
                        crash_at = h["crash_at"]
                    elif h["mode"] == "interrupt":
                        interrupt_at = h["crash_at"]
                    sub = opts.get("files_in", "")
                    hf = {"config": "%sh%d.ini" % (sub, i), "input": "%sh%d.ods" % (sub, i)}
                    w1.put(hf["config"], cfg)
                    w1.put(hf["input"], ods)
                    hr = runner.run(w1, hf, ho, host=dict(gen.BASE_HOST, epoch_ns=gen.BASE_HOST["epoch_ns"] - (10 - i) * 86400 * 10**9, hashseed=i + 1), faults=io_faults, crash_at=crash_at, interrupt_at=interrupt_at, src=src)
                    stats["runs"] += 1
                    hc = hr.get("child") or {}
                    m = h["mode"]
                    if m == "interrupt" and hc.get("interrupted"):
                        stats["probe:history_interrupted_run"] = 1
                        m = "interrupted"
                    if m == "crash" and hc.get("crashed"):
                        stats["probe:history_crashed_run"] = 1
                        m = "crashed"
                    if m == "io_fault" and hc.get("faults"):
                        stats["probe:history_io_faulted_run"] = 1
                        m = "io_faulted"
                    if m == "input_fault" and hr["rc"] != 0:
                        stats["probe:history_input_faulted_run"] = 1
                    if h.get("edit_reports") is not None and core.edit_reports(hr["layout"]["output_dir"], h["edit_reports"], exclude=w1.put_paths):
                        stats["probe:history_reports_edited_by_user"] = 1
                        m += "+edited"
                    if any(p.endswith(".tmp") for p in core.snapshot_diff(hr)):
                        stats["probe:history_left_torn_tmp"] = 1
                    modes.append("%s:%s" % (m, "same" if h["world"] == "same" else ("sibling" if [s["name"] for s in hw["sheets"]] and set(s["name"] for s in hw["sheets"]) <= set(assets) else "other")))
                res = runner.run(w1, f1, opts, host=rel["host"], dump=True, keep_content=True, src=src)
                stats["runs"] += 1
                if any(e["ev"] == "os.remove" and e["targets"][0]["cls"] == "output" for e in core.events(res)):
                    stats["probe:stale_same_name_report_replaced"] = 1
                fired = True
                detail = "+".join(sorted(modes)) + ("|residue" if rel.get("residue") else "")
                for m in modes:
                    stats["pert:history:" + m] = stats.get("pert:history:" + m, 0) + 1
                vs = _compare_full(kind, ref, res, assets, opts.get("prefix") or "", opts.get("prefix") or "")
            elif kind == "order":
                w2 = permute_storage(world, rel["perm_seed"])
                changed = W.materialize(w2)[1] != W.materialize(world)[1]
                w1, f1 = core.layout_case("c17o", w2, dict(opts), [])
                worlds.append(w1)
                res = runner.run(w1, f1, opts, host=rel["host"], dump=True, keep_content=True, src=src)
                stats["runs"] += 1
                fired = changed
                if changed:
                    stats["probe:order_permutation_changed_bytes"] = 1
                    stats["pert:order"] = stats.get("pert:order", 0) + 1
                vs = _compare_full(kind, ref, res, assets, opts.get("prefix") or "", opts.get("prefix") or "")
            elif kind == "subset":
                x = rel["asset"]
                fired = True
                detail = rel["via"]
                pref = opts.get("prefix") or ""
                p_ref = compare.project_asset(ref["reports"], x, pref)
                d_ref = compare.dumps_by_asset(ref).get(x)
                rows_by_asset = {}
                for s in world["sheets"]:
                    grid, index = W.render_grid(world, s)
                    rows_by_asset[s["name"]] = {v for k, v in index.items() if isinstance(k[1], int)}
                    del grid
                if any(rows_by_asset[x] & rows for a, rows in rows_by_asset.items() if a != x):
                    stats["probe:subset_two_assets_share_row_numbers"] = 1
                if opts.get("from") or opts.get("to"):
                    stats["probe:subset_with_window"] = 1
                variants = []
                if rel["via"] in ("option", "both"):
                    variants.append(("subset-a", world, dict(opts, asset=x)))
                if rel["via"] in ("world", "both"):
                    variants.append(("subset-world", reduce_world_to(world, x), dict(opts)))
                if rel.get("keep") and set(rel["keep"]) < set(assets) and x in rel["keep"]:
                    variants.append(("subset-world-multi", reduce_world_to(world, rel["keep"]), dict(opts)))
                for vkind, vw, vo in variants:
                    w1, f1 = core.layout_case("c17s", vw, vo, [])
                    worlds.append(w1)
                    res = runner.run(w1, f1, vo, host=case["host"], dump=True, keep_content=True, src=src)
                    stats["runs"] += 1
                    stats["pert:" + vkind] = stats.get("pert:" + vkind, 0) + 1
                    if res["rc"] != ref["rc"]:
                        exc, site, msg = core.failure_site(res)
                        vs.append({"cls": "%s:exit-status" % vkind, "site": "%s:%s" % (site, exc), "detail": "all-assets run exit %s, %s run for %s exit %s: %s" % (ref["rc"], vkind, x, res["rc"], msg)})
                        continue
                    pd = compare.first_projection_diff(p_ref, compare.project_asset(res["reports"], x, pref))
                    if pd:
                        vs.append({"cls": "%s:report-differs" % vkind, "site": pd[0], "detail": "asset %s: %s" % (x, pd[1])})
                    d_res = compare.dumps_by_asset(res).get(x)
                    if d_ref is not None and d_res is not None:
                        dd = compare.first_dump_diff(d_ref, d_res)
                        if dd:
                            vs.append({"cls": "%s:computed-differs" % vkind, "site": dd[0], "detail": "asset %s %s: %s" % (x, dd[0], dd[1])})
            if fired:
                stats["fault:" + kind] = stats.get("fault:" + kind, 0) + 1
            violations.extend(vs)
            sig = (opts["country"], nondefault, kind, detail, "ok" if not vs else vs[0]["cls"] + "@" + vs[0]["site"])
            signatures.append((repr(sig), fired))
            sample["relations"].append({"kind": kind, "detail": detail, "fired": fired, "violations": vs})
        return {"violations": violations, "signatures": signatures, "stats": stats, "sample": sample}
    finally:
        for w in worlds:
            w.cleanup()


def reduce_candidates(case):
    from ..minimize import world_reductions  # pylint: disable=import-outside-toplevel

    c = case
    if len(c["relations"]) > 1:
        for r in c["relations"]:
            yield dict(c, relations=[r])
        return
    rel = c["relations"][0]
    if rel["kind"] == "history":
        if len(rel["runs"]) > 1:
            for i in range(len(rel["runs"])):
                yield dict(c, relations=[dict(rel, runs=rel["runs"][:i] + rel["runs"][i + 1:])])
        if rel.get("residue"):
            yield dict(c, relations=[dict(rel, residue=[])])
        for i, h in enumerate(rel["runs"]):
            if h.get("edit_reports") is not None:
                yield dict(c, relations=[dict(rel, runs=rel["runs"][:i] + [dict(h, edit_reports=None)] + rel["runs"][i + 1:])])
            if h["mode"] != "clean":
                h2 = dict(h, mode="clean")
                yield dict(c, relations=[dict(rel, runs=rel["runs"][:i] + [h2] + rel["runs"][i + 1:])])
    if rel.get("host") and rel["host"] != gen.BASE_HOST:
        yield dict(c, relations=[dict(rel, host=dict(gen.BASE_HOST))])
        for k, v in gen.BASE_HOST.items():
            if rel["host"].get(k) != v:
                yield dict(c, relations=[dict(rel, host=dict(rel["host"], **{k: v}))])
    if rel["kind"] == "host":
        for k, dflt in (("path_style", c["opts"].get("path_style")), ("files_in", c["opts"].get("files_in")), ("prefix", None), ("outdir", None),
                        ("file_names", None), ("input_mtime", None)):
            if rel.get(k) != dflt:
                yield dict(c, relations=[dict(rel, **{k: dflt})])
    if rel["kind"] == "subset" and rel.get("keep"):
        yield dict(c, relations=[dict(rel, keep=None)])
    if rel["kind"] == "subset" and rel["via"] == "both":
        yield dict(c, relations=[dict(rel, via="option")])
        yield dict(c, relations=[dict(rel, via="world")])
    o = c["opts"]
    for k, dflt in (("asset", None), ("prefix", ""), ("lang", None), ("from", None), ("to", None), ("method", None), ("outdir", "out"),
                    ("path_style", "rel"), ("files_in", "")):
        if o.get(k) != dflt:
            yield dict(c, opts=dict(o, **{k: dflt}))
    if c["world"].get("methods"):
        w2 = W.clone(c["world"])
        w2["methods"] = None
        yield dict(c, world=w2)
    for w2 in world_reductions(c["world"]):
        yield dict(c, world=w2)


def extra_phase(tier, master, facts, src, log):
    """Crash-restart sweep: for a few fixed worlds the same run is first killed at I/O step k (every k in thorough, every third in
    quick) and then executed again on the surviving directory; the second execution must equal the reference run in a pristine
    directory (exit status, report contents, computed data) - whatever the crash left behind must not matter."""
    import os  # pylint: disable=import-outside-toplevel

    from .. import engine  # pylint: disable=import-outside-toplevel

    n_worlds = int(os.environ.get("RP2SIM_CRASH_WORLDS", "0")) or CRASH_WORLDS[tier]
    stride = CRASH_STRIDE[tier]
    cases = []
    info = []
    for k in range(n_worlds):
        base = None
        for t in range(40):
            base = c16.make_case(gen.case_seed(master, PROP + "-crash", k * 100 + t), facts, 0)
            if W.distinct_instants(base["world"]) and all("unique_id" in base["world"]["headers"][x] for x in ("IN", "OUT", "INTRA")):
                break
        base.update({"property": PROP, "host": dict(gen.BASE_HOST), "prestate": [], "readonly_inputs": False})
        w, files = core.layout_case("c17n", base["world"], base["opts"], [])
        try:
            probe = runner.run(w, files, base["opts"], host=base["host"], crash_at=10**9, src=src)  # never fires; counts the crash points
        finally:
            w.cleanup()
        steps = (probe.get("child") or {}).get("io_steps") or 0
        points = list(range(1 + (k % stride), steps + 1, stride))
        info.append({"world_seed": base["seed"], "entry_point": base["opts"]["country"], "io_steps": steps, "crash_points_used": len(points), "stride": stride,
                     "fault_free_exit": probe["rc"]})
        chunk = 8
        for j in range(0, len(points), chunk):
            rels = [{"kind": "history", "runs": [{"mode": "crash", "world": "same", "opts": dict(base["opts"]), "crash_at": at}], "residue": [],
                     "host": dict(gen.BASE_HOST)} for at in points[j:j + chunk]]
            cases.append(dict(base, relations=rels, index=3 * 10**9 + k * 10**5 + j))
    outs = engine.run_cases(PROP, cases, src=src)
    for o in outs:
        if "stats" in o:
            o["stats"]["probe:crash_point_sweep"] = 1
            o["stats"]["crash_point_sweep_runs"] = o["stats"].get("runs", 0)
    log("C17 crash-restart sweep: %d worlds, %d crash points (stride %d), each followed by the run under test" % (n_worlds, sum(i["crash_points_used"] for i in info), stride))
    # hash-seed sweep on twin-lot worlds: one disposal that takes part of two lots bought at the same instant (equal sort keys wherever the
    # timestamp is the key), re-run under other string-hash seeds; dense where the sampled cases meet this shape only now and then
    twin_cases = []
    for k in range(TWIN_WORLDS[tier]):
        twin_cases.append(_twin_lot_case(gen.case_seed(master, PROP + "-twin", k), facts, 3 * 10**9 + 5 * 10**8 + k))
    twin_outs = engine.run_cases(PROP, twin_cases, src=src)
    for o in twin_outs:
        if "stats" in o:
            o["stats"]["probe:twin_lot_hash_sweep"] = 1
            o["stats"]["twin_lot_sweep_runs"] = o["stats"].get("runs", 0)
    log("C17 twin-lot hash-seed sweep: %d worlds x 4 hash seeds" % len(twin_cases))
    return outs + twin_outs, {"coverage": {"crash_points_enumerated": info, "twin_lot_worlds": len(twin_cases)}}


TWIN_WORLDS = {"quick": 32, "thorough": 400}


def _twin_lot_case(seed, facts, index):
    from decimal import Decimal  # pylint: disable=import-outside-toplevel
    import datetime as dt  # pylint: disable=import-outside-toplevel

    rng = random.Random(seed)
    country = rng.choice(["us", "us", "generic", "ie", "jp", "es"])
    world = None
    for _ in range(50):
        world = W.gen_world(rng, {"n_assets": 1, "n_rows": 1, "permute": rng.random() < 0.5, "optional_cols": False, "shapes": False, "need_uid": True, "n_exchanges": 2, "n_holders": 1}, country)
        if W.validate(world)[0]:
            break
    sheet = world["sheets"][0]
    asset, ex, ho = sheet["name"], world["exchanges"][0], world["holders"][0]
    ex2 = world["exchanges"][-1]
    year = rng.randint(2016, 2023)
    t0 = dt.datetime(year, rng.randint(1, 3), rng.randint(1, 28), rng.randint(0, 23), rng.randint(0, 59), rng.randint(0, 59), tzinfo=W.UTC)
    t1 = t0 + dt.timedelta(days=rng.randint(5, 60), seconds=rng.randint(0, 80000))
    ts = t0 + dt.timedelta(days=rng.randint(1, 4))
    t2 = t1 + dt.timedelta(days=rng.randint(3, 90), seconds=rng.randint(0, 80000))

    def amt():
        # magnitudes from 1e-5 to 1e4: sums of fractions of very different size are where accumulation order shows in the last digit
        return Decimal(rng.randint(1000, 99999999)) / Decimal(10) ** rng.choice([1, 3, 5, 7, 8, 8])

    def price():
        return Decimal(rng.randint(100, 9999999)) / Decimal(10) ** rng.choice([0, 2, 2, 4, 5])

    def row(table, inst, uid, **kw):
        r = {"timestamp": W.render_ts(inst, rng.choice([0, 0, 60, -300, 540]), "space"), "asset": asset, "unique_id": uid, "notes": None}
        r.update(kw)
        return r

    a0, a1, a2 = amt(), amt(), amt()
    small = (a0 / 7).quantize(Decimal("0.00000001")) or Decimal("0.00000001")
    rest0 = a0 - small
    part2 = (a2 / 3).quantize(Decimal("0.00000001")) or Decimal("0.00000001")
    ins = [row("IN", t0, "%s-in-1" % asset, exchange=ex, holder=ho, transaction_type="BUY", spot_price=price(), crypto_in=a0, crypto_fee=None, fiat_in_no_fee=None, fiat_in_with_fee=None, fiat_fee=None),
           row("IN", t1, "%s-in-2" % asset, exchange=ex, holder=ho, transaction_type="BUY", spot_price=price(), crypto_in=a1, crypto_fee=None, fiat_in_no_fee=None, fiat_in_with_fee=None, fiat_fee=None),
           row("IN", t1, "%s-in-3" % asset, exchange=ex, holder=ho, transaction_type="BUY", spot_price=price(), crypto_in=a2, crypto_fee=None, fiat_in_no_fee=None, fiat_in_with_fee=None, fiat_fee=None)]
    outs_ = [row("OUT", ts, "%s-ou-1" % asset, exchange=ex, holder=ho, transaction_type="SELL", spot_price=price(), crypto_out_no_fee=small, crypto_fee=Decimal(0), crypto_out_with_fee=None, fiat_out_no_fee=None, fiat_fee=None),
             row("OUT", t2, "%s-ou-2" % asset, exchange=ex, holder=ho, transaction_type="SELL", spot_price=price(), crypto_out_no_fee=rest0 + a1 + part2, crypto_fee=Decimal(0), crypto_out_with_fee=None, fiat_out_no_fee=None, fiat_fee=None)]
    del ex2
    if rng.random() < 0.5:
        ins[1], ins[2] = ins[2], ins[1]
    sheet["tables"] = [{"type": "IN", "rows": ins, "gap": 1}, {"type": "OUT", "rows": outs_, "gap": 1}]
    world["ties"] = True
    world["methods"] = None
    world["generators"] = None
    methods = facts[country]["methods"]
    opts = {"country": country, "method": rng.choice([None] + methods), "lang": None, "from": None, "to": None, "neg": False, "asset": None, "prefix": "", "outdir": "out",
            "path_style": "rel", "files_in": "", "env": {"CURRENCY_CODE": "usd", "LONG_TERM_CAPITAL_GAINS": "365"} if country == "generic" else {}}
    rels = [{"kind": "repeat", "sched_seed": rng.randint(1, 2**31), "hashseed": rng.randint(1, 2**32 - 1)} for _ in range(3)]
    return {"property": PROP, "seed": seed, "index": index, "swarm": {"ties": True}, "world": world, "opts": opts, "host": dict(gen.BASE_HOST), "prestate": [], "readonly_inputs": False,
            "relations": rels}
