"""Simulated worlds: generated valid inputs (config + spreadsheet), their rendering to bytes,
and the small validity model (the only reference model of the design: it decides *input
validity*, never a tax figure)."""
import copy
import datetime as dt
from decimal import Decimal

from . import odswriter

UTC = dt.timezone.utc

ASSET_POOL = ["BTC", "ETH", "DOGE", "USDC", "LUNA2", "1INCH", "xrp", "DOT", "B_1", "Sol", "USDC.e", "W BTC", "LUNA-2"]
EXCHANGE_POOL = ["Coinbase", "Coinbase Pro", "BlockFi", "Kraken", "Ledger-Nano", "binance.us", "Trezor One"]
HOLDER_POOL = ["Alice", "Bob", "Chärlie", "D. Trader"]
# names that differ only in case, or whose "<exchange>_<holder>" concatenations coincide: distinct accounts with colliding derived keys
CONFUSABLE_EXCHANGES = ["Kraken", "kraken", "KRAKEN", "Ledger_Bob", "Ledger", "Coin base", "Coin_base"]
CONFUSABLE_HOLDERS = ["Alice", "alice", "Bob_Alice", "ALICE", "Bob"]

EARN_TYPES = ["AIRDROP", "HARDFORK", "INCOME", "INTEREST", "MINING", "STAKING", "WAGES"]
IN_TYPES = ["BUY", "GIFT", "DONATE"] + EARN_TYPES
OUT_TYPES = ["SELL", "GIFT", "DONATE", "FEE", "LOST", "STAKING"]

# constructor parameters: (mandatory in the header mapping, optional in the header mapping)
FIELDS = {
    "IN": (
        ["timestamp", "asset", "exchange", "holder", "transaction_type", "spot_price", "crypto_in"],
        ["crypto_fee", "fiat_in_no_fee", "fiat_in_with_fee", "fiat_fee", "unique_id", "notes"],
    ),
    "OUT": (
        ["timestamp", "asset", "exchange", "holder", "transaction_type", "spot_price", "crypto_out_no_fee", "crypto_fee"],
        ["crypto_out_with_fee", "fiat_out_no_fee", "fiat_fee", "unique_id", "notes"],
    ),
    "INTRA": (
        ["timestamp", "asset", "from_exchange", "from_holder", "to_exchange", "to_holder", "spot_price", "crypto_sent", "crypto_received"],
        ["unique_id", "notes"],
    ),
}
NUMERIC_FIELDS = {
    "spot_price", "crypto_in", "crypto_fee", "fiat_in_no_fee", "fiat_in_with_fee", "fiat_fee",
    "crypto_out_no_fee", "crypto_out_with_fee", "fiat_out_no_fee", "crypto_sent", "crypto_received",
}
# fields that are never empty in a valid row (candidates for column 0)
ALWAYS_FILLED = {
    "IN": ["timestamp", "asset", "exchange", "holder", "transaction_type", "spot_price", "crypto_in"],
    "OUT": ["timestamp", "asset", "exchange", "holder", "transaction_type", "spot_price", "crypto_out_no_fee", "crypto_fee"],
    "INTRA": ["timestamp", "asset", "from_exchange", "from_holder", "to_exchange", "to_holder", "crypto_sent", "crypto_received"],
}
HEADER_SECTION = {"IN": "in_header", "OUT": "out_header", "INTRA": "intra_header"}

OFFSETS_MIN = [0, 0, 0, 60, -300, -480, 330, 345, 540, 840, -720, 765, -210, 120]


def D(x):
    return x if isinstance(x, Decimal) else Decimal(str(x))


def rp2_reads(value):
    """What RP2 computes on for a numeric cell holding float(value): Decimal('%.11f' % float)."""
    return Decimal("%.11f" % float(value))


def fmt_offset(minutes, style):
    sign = "+" if minutes >= 0 else "-"
    m = abs(minutes)
    if style == "Z" and minutes == 0:
        return "Z"
    if style == "nocolon":
        return "%s%02d%02d" % (sign, m // 60, m % 60)
    return "%s%02d:%02d" % (sign, m // 60, m % 60)


def render_ts(instant, offset_min, style):
    local = instant.astimezone(dt.timezone(dt.timedelta(minutes=offset_min)))
    if style == "slash":
        # "RP2 can parse most timestamp formats": month/day/year as spreadsheet programs write it; day/month/year only where it cannot be
        # misread (day above 12). dateutil - and parse_ts below - read a/b/yyyy month-first unless a > 12.
        if local.day > 12 and (local.minute + local.second) % 2 == 0:
            s = "%02d/%02d/%04d" % (local.day, local.month, local.year)
        else:
            s = "%02d/%02d/%04d" % (local.month, local.day, local.year)
        s += local.strftime(" %H:%M:%S")
        if local.microsecond:
            s += ".%06d" % local.microsecond
        sign = "+" if offset_min >= 0 else "-"
        return s + " %s%02d%02d" % (sign, abs(offset_min) // 60, abs(offset_min) % 60)
    sep = "T" if style == "T" else " "
    s = local.strftime("%Y-%m-%d" + sep + "%H:%M:%S")
    if local.microsecond:
        s += ".%06d" % local.microsecond
    return s + fmt_offset(offset_min, style)


def parse_ts(text):
    """Parse the timestamps this module renders (and only those) -> aware datetime."""
    if "/" in text[:6]:
        datepart, timepart, off = text.split(" ")
        a, b, y = (int(x) for x in datepart.split("/"))
        month, day = (b, a) if a > 12 else (a, b)
        fmt = "%H:%M:%S.%f" if "." in timepart else "%H:%M:%S"
        tm = dt.datetime.strptime(timepart, fmt)
        minutes = int(off[1:3]) * 60 + int(off[3:5])
        if off[0] == "-":
            minutes = -minutes
        return dt.datetime(y, month, day, tm.hour, tm.minute, tm.second, tm.microsecond, tzinfo=dt.timezone(dt.timedelta(minutes=minutes)))
    t = text.replace("T", " ")
    if t.endswith("Z"):
        t = t[:-1] + "+00:00"
    body, sign, off = t[:-6], t[-6], t[-5:]
    if ":" not in off:  # +HHMM
        body, sign, off = t[:-5], t[-5], t[-4:-2] + ":" + t[-2:]
    fmt = "%Y-%m-%d %H:%M:%S.%f" if "." in body else "%Y-%m-%d %H:%M:%S"
    naive = dt.datetime.strptime(body, fmt)
    minutes = int(off[:2]) * 60 + int(off[3:])
    if sign == "-":
        minutes = -minutes
    return naive.replace(tzinfo=dt.timezone(dt.timedelta(minutes=minutes)))


# ------------------------------------------------------------------------------ generation


def _amount(rng, style, lo=Decimal("0.00000001"), hi=Decimal("50")):
    if style == "big":
        # whale-sized holdings of micro-priced tokens: integers up to 9e12 (exactly representable, exactly rendered by %.11f)
        v = Decimal(rng.randint(1, 9000)) * Decimal(10) ** rng.choice([6, 8, 9, 9])
        return max(lo, v)
    if style == "dec11":
        v = Decimal(rng.randint(1, 5_000_000_000_000)) / Decimal(10**11)
        return max(lo, min(hi, v))
    if style == "int":
        v = Decimal(rng.randint(1, 40))
    elif style == "dec2":
        v = Decimal(rng.randint(1, 5000)) / 100
    elif style == "dec8":
        v = Decimal(rng.randint(1, 5_000_000_000)) / Decimal(10**8)
    elif style == "tiny":
        v = Decimal(rng.randint(1, 99999)) / Decimal(10**8)
    else:
        v = Decimal(rng.randint(1, 3000)) / Decimal(rng.choice([1, 10, 100, 1000, 10**5]))
    v = max(lo, min(hi, v))
    return v.normalize() if v == v.to_integral() else v


def _price(rng, micro=False):
    if micro:
        return Decimal(rng.randint(1, 99999)) / Decimal(10) ** rng.choice([8, 9, 10])
    k = rng.random()
    if k < 0.2:
        return Decimal(rng.randint(1, 30000))
    if k < 0.8:
        return Decimal(rng.randint(1, 3_000_000)) / 100
    return Decimal(rng.randint(1, 99999)) / 10000


def _frac(rng, total, style):
    """A positive part of total with at most 8 decimals, < total when possible."""
    q = Decimal(10) ** -8
    if total <= q:
        return total
    if style == "big" and total >= 1000:
        return (total * rng.randint(1, 999) / 1000).to_integral_value()
    if style == "dec11":
        q = Decimal(10) ** -11
        if total <= q:
            return total
    if style == "int" and total >= 2:
        return Decimal(rng.randint(1, int(total) - (1 if total == int(total) else 0) or 1))
    part = (total * Decimal(rng.randint(1, 999)) / 1000).quantize(q)
    if part <= 0:
        part = q
    if part >= total:
        part = total
    return part


def gen_asset_rows(rng, asset, exchanges, holders, flags, start_year):
    """Rows for one asset in chronological (instant) order. Returns list of (table, row)."""
    style = flags.get("amount_style") or rng.choice(["int", "dec2", "dec8", "mixed", "mixed", "dec11"])
    if flags.get("whales") and rng.random() < 0.5:
        style = "big"
    n = flags.get("n_rows") or rng.choice([1, 2, 3, 4, 5, 6, 8, 10, 12, 16, 20, 25])
    accounts = [(e, h) for e in exchanges for h in holders]
    bal = {}
    t = dt.datetime(start_year, rng.randint(1, 12), rng.randint(1, 28), rng.randint(0, 23), rng.randint(0, 59), rng.randint(0, 59), tzinfo=UTC)
    if flags.get("new_year_start"):
        # the history begins in the hours around a New Year: with mixed offsets the first rows fall into different wall-clock years than
        # their instants do (year of the method schedule, of the yearly summaries, of the per-year sheets)
        t = dt.datetime(start_year, 12, 31, rng.randint(10, 23), rng.randint(0, 59), rng.randint(0, 59), tzinfo=UTC)
    rows = []
    seq = [0]
    ts_styles = flags.get("ts_styles") or ["space"]

    last_kind = [None]
    force_tie = [False]
    # few distinct prices: equal spot prices on different lots (ranking ties of price-based methods, equal sort keys)
    # (whale-sized amounts only ever meet micro prices: RP2's decimal context is designed for values below a quintillion - 18 integer
    # digits -, and 9e12 units at 24 000 apiece add up past that)
    price_pool = [_price(rng, micro=(style == "big")) for _ in range(rng.choice([1, 2, 3]))] if flags.get("few_prices") else None

    def price_of():
        if price_pool and rng.random() < 0.8:
            return rng.choice(price_pool)
        return _price(rng, micro=(style == "big"))

    def next_t(kind=None):
        nonlocal t
        # order-safe tie: reuse the previous instant when RP2's tie order (IN, then INTRA, then OUT, then sheet order) equals
        # the order of generation, so that the running balances of the validity model are the ones RP2 computes
        order = {"IN": 0, "INTRA": 1, "OUT": 2}
        if flags.get("ties") and rows and kind and last_kind[0] and order[kind] >= order[last_kind[0]] and (force_tie[0] or rng.random() < 0.3):
            last_kind[0] = kind
            return t
        last_kind[0] = kind
        k = rng.random()
        if flags.get("sparse_years") and k < 0.35:
            gap = dt.timedelta(days=rng.randint(300, 1100), seconds=rng.randint(0, 86399))
        elif k < 0.15:
            gap = dt.timedelta(seconds=rng.randint(1, 120))
        elif k < 0.5:
            gap = dt.timedelta(days=rng.randint(0, 20), seconds=rng.randint(1, 86399))
        elif k < 0.9:
            gap = dt.timedelta(days=rng.randint(20, 200), seconds=rng.randint(1, 86399))
        else:
            gap = dt.timedelta(days=rng.randint(200, 500), seconds=rng.randint(1, 86399))
        if flags.get("micro") and rng.random() < 0.3:
            gap += dt.timedelta(microseconds=rng.randint(1, 999999))
        if flags.get("new_year_start") and len(rows) < 4:
            gap = dt.timedelta(minutes=rng.randint(1, 90), seconds=rng.randint(0, 59))
        if flags.get("tight") and rng.random() < 0.5:
            # deposits and the withdrawals they fund minutes to hours apart: with mixed offsets their calendar dates can be in either order
            gap = dt.timedelta(minutes=rng.randint(1, 240), seconds=rng.randint(0, 59))
        if flags.get("micro") and rng.random() < 0.25:
            # distinct instants inside one second / one minute (code that truncates timestamps to a coarser resolution)
            gap = dt.timedelta(microseconds=rng.randint(1, 400000)) if rng.random() < 0.7 else dt.timedelta(seconds=rng.randint(1, 50))
        t2 = t + gap
        pool = flags.get("instant_pool")
        if pool and rng.random() < 0.4:
            later = [x for x in pool if x > t]
            if later:
                t2 = rng.choice(later[:6])
                t = t2
                return t
        if flags.get("boundaries", True) and rng.random() < 0.12:
            # land within +/-14 h of a New Year (UTC): the local year/date of the event then depends on the offset it is written with
            edge = dt.datetime(t2.year + rng.choice([0, 1]), 1, 1, tzinfo=UTC) + dt.timedelta(seconds=rng.randint(-14 * 3600, 14 * 3600))
            if edge > t + dt.timedelta(seconds=1):
                t2 = edge
        t = t2
        return t

    def base(table):
        seq[0] += 1
        inst = next_t(table)
        off = rng.choice(OFFSETS_MIN) if flags.get("mixed_tz", True) else 0
        if flags.get("new_year_start") and len(rows) < 4 and rng.random() < 0.8:
            off = rng.choice([840, 765, 540])  # exported in a far-eastern zone: already next year on the wall clock, still the old year in UTC
        r = {
            "timestamp": render_ts(inst, off, rng.choice(ts_styles)),
            "asset": asset,
            "unique_id": "%s-%s-%d" % (asset, table[0:2].lower(), seq[0]),
            "notes": rng.choice([None, None, "note %d" % seq[0], "a;b \"q\" <x&y>"]),
        }
        return r

    def add_in(force_type=None):
        r = base("IN")
        e, h = rng.choice(accounts)
        ttype = force_type or (rng.choice(EARN_TYPES) if rng.random() < (0.3 if not flags.get("income_only") else 1.0) else rng.choice(["BUY", "BUY", "BUY", "BUY", "GIFT", "DONATE"]))
        if not force_type and flags.get("in_focus") and rng.random() < 0.9:
            ttype = rng.choice(flags["in_focus"])
        amt = _amount(rng, style)
        price = price_of()
        r.update({"exchange": e, "holder": h, "transaction_type": ttype, "spot_price": price, "crypto_in": amt,
                  "crypto_fee": None, "fiat_in_no_fee": None, "fiat_in_with_fee": None, "fiat_fee": None})
        k = rng.random()
        is_earn = ttype in EARN_TYPES
        fee_p = 0.04 if is_earn else 0.45
        fiat_fee = Decimal(0)
        if k < fee_p / 2 and amt > Decimal("0.00000002"):
            fee = _frac(rng, amt, style)
            if fee >= amt:
                fee = (amt / 2).quantize(Decimal(10) ** -8)
            if 0 < fee < amt:
                r["crypto_fee"] = fee
                fiat_fee = fee * price
        elif k < fee_p:
            fiat_fee = Decimal(rng.randint(0, 2000)) / 100
            r["fiat_fee"] = fiat_fee
        elif k < fee_p + 0.1:
            r[rng.choice(["crypto_fee", "fiat_fee"])] = Decimal(0)
        if flags.get("optional_cols") and rng.random() < 0.5:
            no_fee = (amt * price).quantize(Decimal("0.01"))
            if no_fee >= Decimal("0.01") and no_fee < 30000:
                r["fiat_in_no_fee"] = no_fee
                if rng.random() < 0.7:
                    wf = (no_fee + fiat_fee).quantize(Decimal("0.01"))
                    if wf < 32000:
                        r["fiat_in_with_fee"] = wf
                # what exchanges really export: one of the two totals only, and totals that are off by cents or by a rounded-up fee
                # (RP2 warns about the mismatch and uses the supplied value)
                k2 = rng.random()
                if k2 < 0.15 and r.get("fiat_in_with_fee") is not None:
                    r["fiat_in_no_fee"] = None
                elif k2 < 0.3:
                    r["fiat_in_with_fee"] = None
                if rng.random() < 0.2:
                    f2 = rng.choice(["fiat_in_no_fee", "fiat_in_with_fee"])
                    if r.get(f2) is not None:
                        r[f2] = max(Decimal("0.01"), r[f2] + rng.choice([Decimal("0.01"), Decimal("-0.01"), Decimal("0.5"), Decimal("50"), Decimal("-1.25")]))
        bal[(e, h)] = bal.get((e, h), Decimal(0)) + amt - (r["crypto_fee"] or 0)
        rows.append(("IN", r))

    def positive_accounts():
        return [a for a in accounts if bal.get(a, 0) > 0]

    def add_out(account=None, everything=False, force_type=None):
        pos = positive_accounts()
        if not pos:
            return add_in()
        r = base("OUT")
        e, h = account or rng.choice(pos)
        b = bal[(e, h)]
        ttype = force_type or rng.choice(["SELL", "SELL", "SELL", "SELL", "GIFT", "DONATE", "FEE", "LOST", "STAKING"])
        if not force_type and flags.get("out_focus") and rng.random() < 0.9:
            ttype = rng.choice(flags["out_focus"])
        total = b if (everything or rng.random() < 0.2) else _frac(rng, b, style)
        if flags.get("dust") and rng.random() < 0.5 and b > Decimal("0.00000001"):
            # sell all but dust: what is left is positive at 11 decimals and nothing at 10 (or at 8)
            total = b - rng.choice([Decimal("0.00000000001"), Decimal("0.00000000004"), Decimal("0.000000001")])
        price = price_of()
        if ttype == "FEE":
            no_fee, fee = Decimal(0), total
        else:
            fee = Decimal(0)
            if rng.random() < 0.4 and total > Decimal("0.00000002"):
                fee = _frac(rng, total, style)
                if fee >= total:
                    fee = Decimal(0)
            no_fee = total - fee
        r.update({"exchange": e, "holder": h, "transaction_type": ttype, "spot_price": price, "crypto_out_no_fee": no_fee,
                  "crypto_fee": fee, "crypto_out_with_fee": None, "fiat_out_no_fee": None, "fiat_fee": None})
        if flags.get("optional_cols"):
            if rng.random() < 0.5:
                r["crypto_out_with_fee"] = no_fee + fee
            if rng.random() < 0.4 and ttype != "FEE":
                v = (no_fee * price).quantize(Decimal("0.01"))
                if Decimal("0.01") <= v < 30000:
                    r["fiat_out_no_fee"] = v
            if rng.random() < 0.4:
                v = (fee * price).quantize(Decimal("0.01"))
                if v < 30000:
                    r["fiat_fee"] = v
        bal[(e, h)] = b - total
        rows.append(("OUT", r))

    def add_intra():
        pos = positive_accounts()
        if not pos:
            return add_in()
        r = base("INTRA")
        fe, fh = rng.choice(pos)
        te, th = rng.choice(accounts) if rng.random() < 0.9 else (fe, fh)
        b = bal[(fe, fh)]
        sent = b if rng.random() < 0.25 else _frac(rng, b, style)
        k = rng.random()
        if k < 0.45:
            recv = sent
        elif k < 0.97:
            fee = _frac(rng, sent, style)
            recv = sent - fee if fee < sent else sent
        else:
            recv = Decimal(0)
        price = price_of()
        if recv == sent and rng.random() < 0.5:
            price = None
        r.update({"from_exchange": fe, "from_holder": fh, "to_exchange": te, "to_holder": th, "spot_price": price,
                  "crypto_sent": sent, "crypto_received": recv})
        bal[(fe, fh)] = bal[(fe, fh)] - sent
        bal[(te, th)] = bal.get((te, th), Decimal(0)) + recv
        rows.append(("INTRA", r))

    if flags.get("income_only"):
        for _ in range(n):
            add_in()
        return rows
    add_in(force_type=None if rng.random() < 0.25 else "BUY")
    p_in, p_out = flags.get("mix") or (0.42, 0.8)
    for _ in range(n - 1):
        k = rng.random()
        if k < p_in:
            add_in()
            if flags.get("ties") and rng.random() < 0.35:
                # twin lots: the same purchase split over two exchanges at one instant (equal sort keys downstream), usually followed by a
                # disposal that takes part of both
                force_tie[0] = True
                add_in(force_type="BUY")
                force_tie[0] = False
                if rng.random() < 0.6:
                    add_out()
        elif k < p_out:
            add_out()
        else:
            add_intra()
    if flags.get("sell_all"):
        for a in positive_accounts():
            add_out(account=a, everything=not flags.get("dust"), force_type=rng.choice(["SELL", "SELL", "GIFT", "LOST"]))
    return rows


def gen_headers(rng, flags):
    headers = {}
    ncols = 0
    for table, (mand, opt) in FIELDS.items():
        fields = list(mand)
        for f in opt:
            if f == "unique_id":
                if flags.get("need_uid", True) or rng.random() < 0.9:
                    fields.append(f)
            elif f in ("fiat_in_no_fee", "fiat_in_with_fee", "crypto_out_with_fee", "fiat_out_no_fee"):
                if flags.get("optional_cols"):
                    fields.append(f)
            elif f == "fiat_fee" and table == "OUT":
                if flags.get("optional_cols"):
                    fields.append(f)
            else:
                if rng.random() < 0.9 or f in ("crypto_fee", "fiat_fee"):
                    fields.append(f)
        extra = rng.choice([0, 0, 1, 2, 4]) if flags.get("permute", True) else 0
        width = len(fields) + extra
        if flags.get("permute", True):
            first = rng.choice(ALWAYS_FILLED[table])
            rest = [f for f in fields if f != first]
            cols = list(range(1, width))
            rng.shuffle(cols)
            mapping = {first: 0}
            for f, c in zip(rest, cols):
                mapping[f] = c
        else:
            mapping = {f: i for i, f in enumerate(fields)}
        headers[table] = mapping
        ncols = max(ncols, width)
    return headers, ncols


def gen_world(rng, flags=None, country="us"):
    flags = dict(flags or {})
    n_assets = flags.get("n_assets") or rng.choice([1, 1, 2, 2, 3, 4, 5, 6])
    assets = rng.sample(ASSET_POOL, n_assets)
    if flags.get("confusable"):
        # whole collision families, so that the colliding accounts really are in use: names equal after case folding; names whose
        # "<exchange>_<holder>" concatenations coincide; blank vs underscore
        fam = rng.choice(["case", "concat", "concat", "blank"])
        if fam == "case":
            exchanges, holders = ["Kraken", "kraken", "KRAKEN"][: rng.choice([2, 3])], rng.sample(["Alice", "alice", "ALICE", "Bob"], rng.choice([1, 2, 3]))
        elif fam == "concat":
            exchanges, holders = ["Ledger_Bob", "Ledger"] + rng.sample(["Kraken", "Coinbase"], rng.choice([0, 1])), ["Alice", "Bob_Alice"] + rng.sample(["Bob"], rng.choice([0, 1]))
        else:
            exchanges, holders = ["Coin base", "Coin_base", "Kraken"][: rng.choice([2, 3])], rng.sample(["Alice", "Bob", "Bob_Alice"], rng.choice([1, 2]))
    else:
        exchanges = rng.sample(EXCHANGE_POOL, flags.get("n_exchanges") or rng.choice([1, 2, 2, 3, 4]))
        holders = rng.sample(HOLDER_POOL, flags.get("n_holders") or rng.choice([1, 1, 1, 2, 3]))
    headers, ncols = gen_headers(rng, flags)
    sheets = []
    instant_pool = []
    for asset in assets:
        aflags = dict(flags)
        k = rng.random()
        if flags.get("shapes", True):
            if k < 0.12:
                aflags["income_only"] = True
            elif k < 0.32:
                aflags["sell_all"] = True
            elif k < 0.40:
                aflags["n_rows"] = 1
            if rng.random() < 0.2:
                aflags["sparse_years"] = True
        start_year = rng.randint(2015, 2023)
        if flags.get("shared_instants") and instant_pool:
            # crypto-to-crypto trades: the two legs are rows of two assets at one instant (usually exported with different offsets)
            aflags["instant_pool"] = sorted(instant_pool)
            start_year = min(start_year, instant_pool[0].year)
        asset_holders = holders
        if flags.get("holder_per_asset") and len(holders) > 1:
            # every asset belongs to one of the joint filers only (and is often sold out completely)
            asset_holders = [holders[len(sheets) % len(holders)]]
            if rng.random() < 0.6:
                aflags["sell_all"] = True
                aflags.pop("income_only", None)
        seq = gen_asset_rows(rng, asset, exchanges, asset_holders, aflags, start_year)
        instant_pool.extend(parse_ts(r["timestamp"]).astimezone(UTC) for _, r in seq)
        tables = {"IN": [], "OUT": [], "INTRA": []}
        for table, row in seq:
            tables[table].append(row)
        if flags.get("shuffle_rows") and rng.random() < 0.7:
            for rows in tables.values():
                rng.shuffle(rows)
        order = ["IN", "OUT", "INTRA"]
        if flags.get("permute", True):
            rng.shuffle(order)
        tlist = []
        for table in order:
            if tables[table] or table == "IN" or rng.random() < 0.3:
                tlist.append({"type": table, "rows": tables[table], "gap": rng.choice([0, 1, 1, 2, 5]) if rng.random() < 0.95 else rng.choice([40, 60, 130])})
        sheets.append({"name": asset, "tables": tlist, "lead": rng.choice([0, 0, 1, 3]) if rng.random() < 0.97 else rng.choice([55, 90])})
    if flags.get("permute", True):
        rng.shuffle(sheets)
    world = {
        "assets": assets,
        "exchanges": exchanges,
        "holders": holders,
        "headers": headers,
        "ncols": ncols,
        "methods": None,
        "sheets": sheets,
        "extra_sheets": [],
        "section_order": ["in_header", "out_header", "intra_header", "general", "accounting_methods"],
        "keyword_case": rng.choice(["upper", "upper", "upper", "lower", "title"]),
        "ties": bool(flags.get("ties")),
        "new_year_start": bool(flags.get("new_year_start")),
    }
    if flags.get("permute", True):
        rng.shuffle(world["section_order"])
        if rng.random() < 0.2:
            world["extra_sheets"].append("Unlisted")
    return world


# ------------------------------------------------------------------------------ rows <-> model


def all_rows(world, asset=None):
    for sheet in world["sheets"]:
        if asset is not None and sheet["name"] != asset:
            continue
        for t in sheet["tables"]:
            for r in t["rows"]:
                yield sheet["name"], t["type"], r


def first_last_dates(world):
    ds = [parse_ts(r["timestamp"]) for _, _, r in all_rows(world)]
    return (min(ds), max(ds)) if ds else (None, None)


def local_years(world):
    return sorted({parse_ts(r["timestamp"]).year for _, _, r in all_rows(world)})


def validate(world, allow_negative=False, allow_ties=None):
    """The validity model. Returns (ok, reason). Replays each asset's rows in *instant* order
    (ties: IN, then INTRA, then OUT, then sheet order - the order RP2's balance code uses) on exact
    decimals equal to what RP2 reads."""
    if allow_ties is None:
        allow_ties = bool(world.get("ties"))
    for sheet in world["sheets"]:
        events = []
        order = {"IN": 0, "INTRA": 1, "OUT": 2}
        idx = 0
        seen_instants = set()
        for t in sheet["tables"]:
            for r in t["rows"]:
                inst = parse_ts(r["timestamp"]).astimezone(UTC)
                events.append((inst, order[t["type"]], idx, t["type"], r))
                seen_instants.add(inst)
                idx += 1
        if not any(e[3] == "IN" for e in events):
            return False, "%s: no IN row" % sheet["name"]
        events.sort(key=lambda e: (e[0], e[1], e[2]))
        bal = {}
        holding = Decimal(0)

        def num(r, f):
            v = r.get(f)
            return None if v is None else rp2_reads(v)

        for inst, _, _, table, r in events:
            for f in NUMERIC_FIELDS:
                if r.get(f) is not None and rp2_reads(r[f]) != D(r[f]):
                    return False, "%s: %s=%s not exactly representable" % (r.get("unique_id"), f, r[f])
            if table == "IN":
                acct = (r["exchange"], r["holder"])
                amt = num(r, "crypto_in")
                fee = num(r, "crypto_fee") or Decimal(0)
                if amt <= 0 or num(r, "spot_price") <= 0:
                    return False, "bad IN"
                bal[acct] = bal.get(acct, Decimal(0)) + amt
                holding += amt
                if fee > 0:
                    bal[acct] -= fee
                    holding -= fee
                    if holding < 0 or (not allow_negative and bal[acct] < 0):
                        return False, "%s: fee overdraws" % r.get("unique_id")
            elif table == "OUT":
                acct = (r["exchange"], r["holder"])
                total = num(r, "crypto_out_no_fee") + num(r, "crypto_fee")
                if r.get("crypto_out_with_fee") is not None and num(r, "crypto_out_with_fee") != total:
                    return False, "inconsistent crypto_out_with_fee"
                bal[acct] = bal.get(acct, Decimal(0)) - total
                holding -= total
                if holding < 0:
                    return False, "%s: disposal not covered globally" % r.get("unique_id")
                if not allow_negative and bal[acct] < 0:
                    return False, "%s: account overdrawn" % r.get("unique_id")
            else:
                fa = (r["from_exchange"], r["from_holder"])
                ta = (r["to_exchange"], r["to_holder"])
                sent, recv = num(r, "crypto_sent"), num(r, "crypto_received")
                if recv > sent or sent <= 0:
                    return False, "bad INTRA"
                bal[fa] = bal.get(fa, Decimal(0)) - sent
                if not allow_negative and bal[fa] < 0:
                    return False, "%s: transfer overdraws" % r.get("unique_id")
                bal[ta] = bal.get(ta, Decimal(0)) + recv
                holding -= sent - recv
                if holding < 0:
                    return False, "%s: transfer fee not covered globally" % r.get("unique_id")
        if len(seen_instants) != len(events) and not allow_ties:
            return False, "%s: equal instants" % sheet["name"]
    return True, ""


def distinct_instants(world):
    for sheet in world["sheets"]:
        inst = [parse_ts(r["timestamp"]).astimezone(UTC) for t in sheet["tables"] for r in t["rows"]]
        if len(set(inst)) != len(inst):
            return False
    return True


# ------------------------------------------------------------------------------ rendering


def _kw(world, word):
    c = world.get("keyword_case", "upper")
    if word == "TABLE END":
        return word  # matched case-sensitively by RP2
    return {"upper": word.upper(), "lower": word.lower(), "title": word.title()}[c]


def _cell(field, value):
    if value is None:
        return None
    if field in NUMERIC_FIELDS:
        if isinstance(value, dict):
            return value
        return float(value)
    return value if isinstance(value, (dict, bool)) else str(value)


def row_cells(world, table, row):
    mapping = world["headers"][table]
    width = world["ncols"]
    cells = [None] * width
    used = set(mapping.values())
    for c in range(width):
        if c not in used:
            cells[c] = "x%d" % c if (c * 7 + len(str(row.get("unique_id")))) % 3 else 17.5
    for f, c in mapping.items():
        cells[c] = _cell(f, row.get(f))
    return cells


def header_cells(world, table):
    mapping = world["headers"][table]
    cells = [None] * world["ncols"]
    for f, c in mapping.items():
        cells[c] = f.replace("_", " ").title()
    for c in range(world["ncols"]):
        if cells[c] is None:
            cells[c] = "Custom %d" % c
    return cells


def render_grid(world, sheet):
    """Physical grid of one sheet plus an index: {(table, row_index): physical row, (table,'begin'|'header'|'end'): row}"""
    grid = []
    index = {}
    width = world["ncols"]
    for _ in range(sheet.get("lead", 0)):
        grid.append([None] * width)
    for t in sheet["tables"]:
        index[(t["type"], "begin")] = len(grid)
        grid.append([_kw(world, t["type"])] + [None] * (width - 1))
        index[(t["type"], "header")] = len(grid)
        grid.append(header_cells(world, t["type"]))
        for i, r in enumerate(t["rows"]):
            index[(t["type"], i)] = len(grid)
            grid.append(row_cells(world, t["type"], r))
        index[(t["type"], "end")] = len(grid)
        grid.append(["TABLE END"] + [None] * (width - 1))
        for _ in range(t.get("gap", 1)):
            grid.append([None] * width)
    return grid, index


def render_grids(world):
    sheets = []
    for sheet in world["sheets"]:
        grid, _ = render_grid(world, sheet)
        sheets.append((sheet["name"], grid))
    for name in world.get("extra_sheets", []):
        sheets.append((name, [["IN"], ["Timestamp"], ["TABLE END"]] if name == "UnlistedTable" else [[None, "scratch"], [None, 3.5]]))
    return sheets


def render_config(world):
    parts = []
    for section in world["section_order"]:
        if section == "general":
            lines = ["[general]"]
            lines.append("assets = " + ", ".join(world["assets"]))
            lines.append("exchanges = " + ", ".join(world["exchanges"]))
            lines.append("holders = " + ", ".join(world["holders"]))
            if world.get("generators"):
                lines.append("generators = " + ", ".join(world["generators"]))
        elif section == "accounting_methods":
            if not world.get("methods"):
                continue
            lines = ["[accounting_methods]"]
            for year, method in world["methods"]:
                lines.append("%s = %s" % (year, method))
        else:
            table = {v: k for k, v in HEADER_SECTION.items()}[section]
            lines = ["[%s]" % section]
            for f, c in world["headers"][table].items():
                lines.append("%s = %d" % (f, c))
        parts.append("\n".join(lines))
    return "\n\n".join(parts) + "\n"


def materialize(world):
    """-> (config_text, ods_bytes)"""
    return render_config(world), odswriter.ods_bytes(render_grids(world))


def clone(world):
    return copy.deepcopy(world)


class _Enc:
    pass


def to_jsonable(obj):
    """Decimals -> strings so that worlds can live in replay files."""
    if isinstance(obj, Decimal):
        return {"$d": str(obj)}
    if isinstance(obj, dict):
        return {k: to_jsonable(v) for k, v in obj.items()}
    if isinstance(obj, (list, tuple)):
        return [to_jsonable(v) for v in obj]
    return obj


def from_jsonable(obj):
    if isinstance(obj, dict):
        if set(obj.keys()) == {"$d"}:
            return Decimal(obj["$d"])
        return {k: from_jsonable(v) for k, v in obj.items()}
    if isinstance(obj, list):
        return [from_jsonable(v) for v in obj]
    return obj
